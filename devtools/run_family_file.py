"""run_family_file.py <module> <function> : run a probe family defined in a not-yet-registered module"""
import sys, subprocess, os, importlib
sys.path.insert(0,'/verif/lib')
import probes
m=importlib.import_module(sys.argv[1]); cases=getattr(m,sys.argv[2])("quick",0)
inp="\n".join(c.line() for c in cases)+"\n"
p=subprocess.run([os.environ.get("REPLAYER","/tmp/vrt/debug/verif_replay")],input=inp,capture_output=True,text=True)
res={}
for line in p.stdout.splitlines():
    i,st,hx=line.split("\t"); res[i]=(st,bytes.fromhex(hx).decode())
bad=[]
for c in cases:
    if c.id not in res: bad.append((c.id,"no result")); continue
    if c.expect is None: continue
    j=probes.judge_twin(c,res[c.id],res.get(c.expect.other,("?","none"))) if isinstance(c.expect,probes.Twin) else probes.judge(c,*res[c.id])
    if j: bad.append((c.id,c.prog[-100:],j[:200]))
print(sys.argv[2],len(cases),"bad",len(bad))
for b in bad[:int(os.environ.get("SHOW","6"))]: print("  ",b)
