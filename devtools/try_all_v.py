"""try_all_v.py [substr...] — build + verify every V unit (or those whose id contains a substring) in parallel; prints non-discharged"""
import sys, os, concurrent.futures as cf
sys.path.insert(0,'/verif/lib'); sys.path.insert(0,'/verif/spec')
import vgen, vunits, vtypes
ub={u['id']:u for u in vunits.UNITS}
prelude=open('/verif/verus/prelude.rs').read()
types="\n".join(vgen.extract_type(t)[0] for t in vtypes.TYPES)
os.makedirs('/tmp/vp1/gen',exist_ok=True)
sel=[u for u in vunits.UNITS if not u.get('stub_only') and (not sys.argv[1:] or any(a in u['id'] for a in sys.argv[1:]))]
def one(u):
    try:
        meta=vgen.build_file(u,ub,prelude,types,"",f'/tmp/vp1/gen/'+u['id'].replace('.','_')+'.rs')
        run=vgen.run_verus(meta['file'])
        c=vgen.classify(u,meta,run)
        return u['id'],run['wall'],c
    except Exception as e:
        return u['id'],0,dict(obligations={'ERR':dict(status='undecided',detail=repr(e))})
tot=dis=0
with cf.ThreadPoolExecutor(max_workers=12) as ex:
    for uid,w,c in ex.map(one,sel):
        bad=[(o,v) for o,v in c['obligations'].items() if v['status']!='discharged']
        tot+=len(c['obligations']); dis+=len(c['obligations'])-len(bad)
        if bad:
            print(uid, round(w,1))
            seen=set()
            for o,v in bad:
                d=v['detail'][:int(os.environ.get('DETAIL','600'))]
                print('   ',o,v['status'],'(same)' if d in seen else d); seen.add(d)
print(f"{dis}/{tot} discharged over {len(sel)} units")
