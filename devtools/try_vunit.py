import sys, os
sys.path.insert(0,'/verif/lib'); sys.path.insert(0,'/verif/spec')
import vgen, vunits, vtypes
ub={u['id']:u for u in vunits.UNITS}
prelude=open('/verif/verus/prelude.rs').read()
types="\n".join(vgen.extract_type(t)[0] for t in vtypes.TYPES)
os.makedirs('/tmp/vp1/gen',exist_ok=True)
for uid in sys.argv[1:]:
    u=ub[uid]
    meta=vgen.build_file(u,ub,prelude,types,"",f'/tmp/vp1/gen/'+uid.replace('.','_')+'.rs')
    run=vgen.run_verus(meta['file'])
    c=vgen.classify(u,meta,run)
    print(uid, round(run['wall'],1), c['smt_ms'])
    seen=set()
    for o,v in c['obligations'].items():
        d=v['detail'][:1500]
        print('  ',o,v['status'],'(same)' if d in seen and d else d)
        seen.add(d)
