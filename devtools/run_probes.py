import sys, subprocess, collections
sys.path.insert(0,'/verif/lib')
import probes
fams = sys.argv[1:] or ["arith:+","arith:-","arith:*","arith:/","arith:%","arith:**","arith:<<","arith:>>","unary:-","bitwise","compare","float","eq","eq_array","index","slice","order","control","fold","logic"]
for f in fams:
    cases = probes.family(f, "quick", 0)
    inp = "\n".join(c.line() for c in cases)+"\n"
    p = subprocess.run([__import__("os").environ.get("REPLAYER", "/tmp/vrt/debug/verif_replay")], input=inp, capture_output=True, text=True)
    res = {}
    for line in p.stdout.splitlines():
        i, st, hx = line.split("\t")
        res[i] = (st, bytes.fromhex(hx).decode())
    bad = []
    for c in cases:
        if c.id not in res: bad.append((c.id, "no result")); continue
        if c.expect is None: continue
        if isinstance(c.expect, probes.Twin): j = probes.judge_twin(c, res[c.id], res.get(c.expect.other, ("?","none")))
        else: j = probes.judge(c, *res[c.id])
        if j: bad.append((c.id, c.prog[-150:], c.vars, j))
    print(f, len(cases), "bad:", len(bad))
    for b in bad[:8]: print("   ", b)
