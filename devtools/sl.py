"""sl.py [--steps] 'program' ... : run SimpleSL programs on the prebuilt replayer (/tmp/vrt/debug/verif_replay)"""
import sys, subprocess
args=sys.argv[1:]; mode="nostd"
if args and args[0]=="--steps": mode="steps"; args=args[1:]
if args and args[0]=="--std": mode="std"; args=args[1:]
inp="".join(f"{i}\t{mode}\t{a.replace('|||',chr(0x1e)).encode().hex()}\t\n" for i,a in enumerate(args))
p=subprocess.run([sys.environ.get("REPLAYER","/tmp/vrt/debug/verif_replay")] if False else ["/tmp/vrt/debug/verif_replay"],input=inp,capture_output=True,text=True)
for line in p.stdout.splitlines():
    i,st,hx=line.split("\t"); print(args[int(i)][:100],"=>",st,bytes.fromhex(hx).decode().replace(chr(0x1e)," ||| "))
