#!/bin/bash
# confirm_seed.sh <worktree> : for each out/change_i: apply, build+52 tests, demo fails; revert; demo passes
WT="$1"; cd "$WT" || exit 1
for c in out/change_*; do
  [ -f "$c/patch.diff" ] || continue
  git checkout -q -- src parser macros 2>/dev/null; rm -f tests/zz_demo.rs
  R="$c/confirm.txt"; : > "$R"
  if ! git apply --check "$c/patch.diff" 2>>"$R"; then echo "APPLY_FAIL" >> "$R"; continue; fi
  git apply "$c/patch.diff"
  T=$(cargo test --workspace --no-fail-fast --offline 2>&1 | grep -E "^test result" | awk '{p+=$4; f+=$6} END {print p" passed "f" failed"}')
  echo "with change: suite: $T" >> "$R"
  if [ -f "$c/demo.rs" ]; then
    cp "$c/demo.rs" tests/zz_demo.rs
    D=$(cargo test --offline --test zz_demo 2>&1 | grep -E "^test result" | tail -1)
    echo "with change: demo: $D" >> "$R"
    git checkout -q -- src parser macros
    D=$(cargo test --offline --test zz_demo 2>&1 | grep -E "^test result" | tail -1)
    echo "without change: demo: $D" >> "$R"
    rm -f tests/zz_demo.rs
  else
    echo "no demo.rs" >> "$R"
  fi
  git checkout -q -- src parser macros
done
echo done
