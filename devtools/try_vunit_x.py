import sys; sys.path.insert(0,'/verif/lib'); sys.path.insert(0,'/verif/spec')
import vunits
exec(open(sys.argv[1]).read()); sys.argv=[sys.argv[0]]+sys.argv[2:]
exec(open('/verif/devtools/try_vunit.py').read())
