import sys; sys.path.insert(0,'/verif/lib'); sys.path.insert(0,'/verif/spec')
import vunits, vunits_more
sys.argv[0]='try_vunit'; exec(open('/verif/devtools/try_vunit.py').read())
