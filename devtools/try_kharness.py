import sys, json, time
sys.path.insert(0,'/verif/lib'); sys.path.insert(0,'/verif/spec')
import kgen, kunits
names=sys.argv[1:]
units=[k for k in kunits.K if k['name'] in names] if names else [k for k in kunits.K if 'C08' in k['props'] and k['tier']=='quick']
s=kgen.make_scratch()
try:
    t=time.time()
    res,meta=kgen.run_harnesses(s,units,timeout_s=600,log_path='/tmp/vp1/kani.log')
    print(meta['wall'], meta['build_error'])
    for n,r in res.items(): print(n, r['status'], r.get('duration_ms'), r.get('solver_s'), r.get('detail','')[:100], r.get('failed_checks','') and r['failed_checks'][0]['description'][:60])
    for u in units:
        if res[u['name']]['status']=='failed':
            print(kgen.concrete_playback(s,u))
finally:
    kgen.drop_scratch(s)
