#!/bin/bash
# probe_patch.sh <patch.diff> <family>... : build the replayer against a scratch copy of /repo with the patch applied and
# run probe families on it (development aid)
PATCH="$(readlink -f "$1")"; shift
D=$(mktemp -d /tmp/verif-pp-XXXXXX)
rsync -a --exclude target --exclude .git /repo/ "$D/repo/"
( cd "$D/repo" && patch -p1 -s < "$PATCH" ) || { echo "patch does not apply"; rm -rf "$D"; exit 3; }
rsync -a --exclude target /verif/replay/ "$D/crate/"; cp /repo/Cargo.lock "$D/crate/"
sed -i "s|path = \"/repo\"|path = \"$D/repo\"|" "$D/crate/Cargo.toml"
( cd "$D/crate" && CARGO_TARGET_DIR=/tmp/vrt-mut cargo build --offline -q 2>&1 | tail -5 )
REPLAYER=/tmp/vrt-mut/debug/verif_replay python3 /verif/devtools/run_probes.py "$@" 2>&1 | cut -c1-${WIDTH:-400}
rm -rf "$D"
