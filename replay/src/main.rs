//! Native replayer: runs SimpleSL programs through the PUBLIC API of the real crate
//! (path dependency on /repo's current working tree) and reports what happened.
//! Protocol (stdin, one case per line):  <id> TAB <mode> TAB <hex(utf8 program)> TAB <vars>
//!   mode = "std" | "nostd"
//!   vars = `;`-separated `name=i:<i64>` | `name=f:<u64 bits>` | `name=b:<0|1>` bound in the interpreter
//!          the program is parsed against (so they are constants to the optimizer) and run in
//! Output (stdout): <id> TAB <status> TAB <hex(utf8 debug rendering or message)>
//!   status = ok | parse_error | exec_error | panic
//!   for errors the text is `<VariantName>|<Display text>` (the variant name of the error enum, so that
//!   re-wording a message is not mistaken for a change of behaviour)
use simplesl::{Code, Interpreter, variable::Variable};
use std::io::{BufRead, Write};
use std::panic::{AssertUnwindSafe, catch_unwind};

fn unhex(s: &str) -> String {
    let bytes: Vec<u8> = (0..s.len() / 2)
        .map(|i| u8::from_str_radix(&s[2 * i..2 * i + 2], 16).unwrap())
        .collect();
    String::from_utf8(bytes).unwrap()
}
fn hex(s: &str) -> String {
    s.bytes().map(|b| format!("{b:02x}")).collect()
}

fn kind<E: std::fmt::Debug + std::fmt::Display>(e: &E) -> String {
    let d = format!("{e:?}");
    let name: String = d.chars().take_while(|c| c.is_alphanumeric() || *c == '_').collect();
    format!("{name}|{e}")
}

fn main() {
    std::panic::set_hook(Box::new(|_| {}));
    let stdin = std::io::stdin();
    let out = std::io::stdout();
    for line in stdin.lock().lines() {
        let line = line.unwrap();
        let parts: Vec<&str> = line.split('\t').collect();
        if parts.len() < 3 {
            continue;
        }
        let (id, mode, prog) = (parts[0], parts[1], unhex(parts[2]));
        let vars: Vec<(String, Variable)> = parts
            .get(3)
            .map(|v| {
                v.split(';')
                    .filter(|x| !x.is_empty())
                    .map(|x| {
                        let (name, val) = x.split_once('=').unwrap();
                        let (kind, val) = val.split_once(':').unwrap();
                        let var = match kind {
                            "i" => Variable::Int(val.parse::<i64>().unwrap()),
                            "f" => Variable::Float(f64::from_bits(val.parse::<u64>().unwrap())),
                            _ => Variable::Bool(val == "1"),
                        };
                        (name.to_string(), var)
                    })
                    .collect()
            })
            .unwrap_or_default();
        let mk = |mode: &str| {
            let mut i = if mode == "std" {
                Interpreter::with_stdlib()
            } else {
                Interpreter::without_stdlib()
            };
            for (n, v) in &vars {
                i.insert(n.as_str().into(), v.clone());
            }
            i
        };
        if mode == "steps" || mode == "steps-std" {
            // REPL style: the program text is a list of steps separated by U+001E; each step is parsed against and run
            // (unscoped) in ONE interpreter that is kept across the steps.  Answer: status `ok`, text =
            // `<status>:<text>` of every step joined by U+001E.
            let mut outs: Vec<String> = Vec::new();
            let mut live = mk(if mode == "steps" { "nostd" } else { "std" });
            for step in prog.split('\u{1e}') {
                let r = catch_unwind(AssertUnwindSafe(|| match Code::parse(&live, step) {
                    Err(e) => ("parse_error", kind(&e)),
                    Ok(code) => match code.exec_unscoped(&mut live) {
                        Ok(v) => ("ok", format!("{v:?}")),
                        Err(e) => ("exec_error", kind(&e)),
                    },
                }));
                match r {
                    Ok((s, t)) => outs.push(format!("{s}:{t}")),
                    Err(p) => {
                        outs.push(format!(
                            "panic:{}",
                            p.downcast_ref::<String>()
                                .cloned()
                                .or_else(|| p.downcast_ref::<&str>().map(|s| s.to_string()))
                                .unwrap_or_default()
                        ));
                        break;
                    }
                }
            }
            let mut o = out.lock();
            writeln!(o, "{id}\tok\t{}", hex(&outs.join("\u{1e}"))).unwrap();
            continue;
        }
        let res = catch_unwind(AssertUnwindSafe(|| {
            let interpreter = mk(mode);
            match Code::parse(&interpreter, &prog) {
                Err(e) => ("parse_error", kind(&e)),
                Ok(code) => {
                    let mut run = mk(mode);
                    match code.exec_unscoped(&mut run) {
                        Ok(v) => ("ok", format!("{v:?}")),
                        Err(e) => ("exec_error", kind(&e)),
                    }
                }
            }
        }));
        let (status, text) = match res {
            Ok((s, t)) => (s, t),
            Err(p) => (
                "panic",
                p.downcast_ref::<String>()
                    .cloned()
                    .or_else(|| p.downcast_ref::<&str>().map(|s| s.to_string()))
                    .unwrap_or_default(),
            ),
        };
        let mut o = out.lock();
        writeln!(o, "{id}\t{status}\t{}", hex(&text)).unwrap();
    }
}
