//! Back end K, second harness module: dropped at src/instruction/slicing/verif_slicing.rs of the scratch copy
//! (`#[cfg(kani)] mod verif_slicing;` appended to src/instruction/slicing.rs) so that it can name the
//! private `Slicing::to_bound`.
#![allow(unused_imports, dead_code)]
use super::Slicing;

/// Python's slice.indices + range, in 128-bit arithmetic (independent of slyce)
fn py_slice(n: i128, start: Option<i128>, stop: Option<i128>, step: Option<i128>, out: &mut [usize; 3]) -> usize {
    let step = step.unwrap_or(1);
    if step == 0 {
        return 0;
    }
    let (lo, hi) = if step > 0 { (0, n) } else { (-1, n - 1) };
    let norm = |v: Option<i128>, def: i128| -> i128 {
        match v {
            None => def,
            Some(v) => {
                let v = if v < 0 { v + n } else { v };
                if v < lo { lo } else if v > hi { hi } else { v }
            }
        }
    };
    let (s, e) = if step > 0 { (norm(start, 0), norm(stop, n)) } else { (norm(start, n - 1), norm(stop, -1)) };
    let mut cnt = 0usize;
    let mut i = s;
    let mut guard = 0;
    while guard < 4 && ((step > 0 && i < e) || (step < 0 && i > e)) {
        if cnt < 3 {
            out[cnt] = i as usize;
        }
        cnt += 1;
        i += step;
        guard += 1;
    }
    cnt
}

/// for EVERY i64 start/stop/step (each optional) and every length <= 3: converting the bounds the way
/// Slicing::exec does and handing them to slyce never panics (no overflow) and selects Python's elements
#[kani::proof]
#[kani::unwind(6)]
fn c09_slicing_bounds_full_domain_len3() {
    let data: [i64; 3] = [10, 11, 12];
    let n: usize = kani::any();
    kani::assume(n <= 3);
    let (start, stop, step): (Option<i64>, Option<i64>, Option<i64>) = (kani::any(), kani::any(), kani::any());
    let sl = slyce::Slice {
        start: start.map(Slicing::to_bound).into(),
        end: stop.map(Slicing::to_bound).into(),
        step: step.map(Slicing::to_bound),
    };
    let mut want = [0usize; 3];
    let cnt = py_slice(n as i128, start.map(|v| v as i128), stop.map(|v| v as i128), step.map(|v| v as i128), &mut want);
    let mut got = 0usize;
    for x in sl.apply(&data[..n]) {
        assert!(got < cnt && *x == data[want[got]]);
        got += 1;
    }
    assert!(got == cnt);
}

#[kani::proof]
fn c09_to_bound_is_identity_above_min() {
    let i: i64 = kani::any();
    let b = Slicing::to_bound(i);
    assert!(b != isize::MIN);
    if i != i64::MIN {
        assert!(b as i64 == i);
    } else {
        assert!(b == -isize::MAX);
    }
}
