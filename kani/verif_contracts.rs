//! Back end K: contract harnesses compiled INTO a scratch copy of the real crate
//! (this file is dropped at src/instruction/bin_op/verif_contracts.rs of the copy and
//! `#[cfg(kani)] mod verif_contracts;` is appended to src/instruction/bin_op.rs; no
//! other line of the copy is touched).
//!
//! Harness discipline (see DESIGN §1.2): observe results through `&`, copy scalars out,
//! `mem::forget` every Variable/Result/Arc, stub panic-message formatting.
#![allow(unused_imports, dead_code, clippy::all)]
use super::*;
use crate::ExecError;
use crate::variable::{Array, Type, Variable};
use std::sync::Arc;

pub fn stub_string(_v: &Variable, _depth: u8) -> String {
    String::new()
}

/// error codes used by `obs`
const E_INDEX: u8 = 11;
const E_NEGLEN: u8 = 12;
const E_NEGEXP: u8 = 13;
const E_ZDIV: u8 = 14;
const E_ZMOD: u8 = 15;
const E_SHIFT: u8 = 16;

fn err_code(e: &ExecError) -> u8 {
    match e {
        ExecError::IndexOutOfBounds => E_INDEX,
        ExecError::NegativeLength => E_NEGLEN,
        ExecError::NegativeExponent => E_NEGEXP,
        ExecError::ZeroDivision => E_ZDIV,
        ExecError::ZeroModulo => E_ZMOD,
        ExecError::OverflowShift => E_SHIFT,
    }
}

/// observation of a value: (tag, int payload, float bits, bool)
#[derive(Clone, Copy, PartialEq, Eq)]
pub struct Obs {
    tag: u8, // 0 Int 1 Float 2 Bool 3 Void 4 other ; >=11 error
    i: i64,
    f: u64,
    b: bool,
}

fn obs_var(v: &Variable) -> Obs {
    match v {
        Variable::Int(x) => Obs { tag: 0, i: *x, f: 0, b: false },
        Variable::Float(x) => Obs { tag: 1, i: 0, f: x.to_bits(), b: false },
        Variable::Bool(x) => Obs { tag: 2, i: 0, f: 0, b: *x },
        Variable::Void => Obs { tag: 3, i: 0, f: 0, b: false },
        _ => Obs { tag: 4, i: 0, f: 0, b: false },
    }
}

fn obs(v: Variable) -> Obs {
    let o = obs_var(&v);
    std::mem::forget(v);
    o
}

fn obs_res(r: Result<Variable, ExecError>) -> Obs {
    let o = match &r {
        Ok(v) => obs_var(v),
        Err(e) => Obs { tag: err_code(e), i: 0, f: 0, b: false },
    };
    std::mem::forget(r);
    o
}

fn same_float(bits: u64, expected: f64) -> bool {
    let got = f64::from_bits(bits);
    (got.is_nan() && expected.is_nan()) || bits == expected.to_bits()
}

macro_rules! harness {
    ($name:ident, $body:block) => {
        #[kani::proof]
        #[kani::stub(crate::variable::Variable::string, stub_string)]
        #[kani::stub(crate::variable::Variable::debug, stub_string)]
        fn $name() $body
    };
}


fn obs_ins(r: &Instruction) -> Obs {
    match r {
        Instruction::Variable(v) => obs_var(v),
        Instruction::BinOperation(_) => Obs { tag: 5, i: 0, f: 0, b: false },
        Instruction::UnaryOperation(_) => Obs { tag: 6, i: 0, f: 0, b: false },
        Instruction::Break => Obs { tag: 7, i: 0, f: 0, b: false },
        Instruction::Continue => Obs { tag: 8, i: 0, f: 0, b: false },
        _ => Obs { tag: 9, i: 0, f: 0, b: false },
    }
}
fn obs_ins_res(r: Result<Instruction, ExecError>) -> Obs {
    let o = match &r {
        Ok(i) => obs_ins(i),
        Err(e) => Obs { tag: err_code(e), i: 0, f: 0, b: false },
    };
    std::mem::forget(r);
    o
}
fn obs_ins_own(r: Instruction) -> Obs {
    let o = obs_ins(&r);
    std::mem::forget(r);
    o
}
/// shape of a non-folded result: BinOperation{lhs: Break, rhs: <obs>, op}
fn obs_binop(r: &Instruction) -> (u8, Obs, Obs, Option<BinOperator>) {
    match r {
        Instruction::BinOperation(b) => (5, obs_ins(&b.lhs), obs_ins(&b.rhs), Some(b.op)),
        other => (obs_ins(other).tag, obs_ins(other), obs_ins(other), None),
    }
}
fn int(v: i64) -> Instruction { Instruction::Variable(Variable::Int(v)) }
fn flt(v: f64) -> Instruction { Instruction::Variable(Variable::Float(v)) }
fn boo(v: bool) -> Instruction { Instruction::Variable(Variable::Bool(v)) }

// =============================================================== C08: int arithmetic
harness!(c08_add_int, {
    let (a, b): (i64, i64) = (kani::any(), kani::any());
    let o = obs(add::exec(Variable::Int(a), Variable::Int(b)));
    assert!(o.tag == 0 && o.i == ((a as i128 + b as i128) as i64));
});
harness!(c08_subtract_int, {
    let (a, b): (i64, i64) = (kani::any(), kani::any());
    let o = obs(subtract::exec(Variable::Int(a), Variable::Int(b)));
    assert!(o.tag == 0 && o.i == ((a as i128 - b as i128) as i64));
});
harness!(c08_multiply_int, {
    let (a, b): (i64, i64) = (kani::any(), kani::any());
    let o = obs(multiply::exec(Variable::Int(a), Variable::Int(b)));
    assert!(o.tag == 0 && o.i == ((a as i128 * b as i128) as i64));
});
harness!(c08_unary_minus_int, {
    let a: i64 = kani::any();
    let o = obs(crate::instruction::prefix_op::unary_minus::exec(Variable::Int(a)));
    assert!(o.tag == 0 && o.i == ((-(a as i128)) as i64));
});
harness!(c08_divide_int_cheap, {
    let (a, b): (i64, i64) = (kani::any(), kani::any());
    let o = obs_res(divide::exec(Variable::Int(a), Variable::Int(b)));
    if b == 0 {
        assert!(o.tag == E_ZDIV);
    } else {
        assert!(o.tag == 0);
        if b == 1 { assert!(o.i == a); }
        if b == -1 { assert!(o.i == ((-(a as i128)) as i64)); }
        if a == i64::MIN && b == -1 { assert!(o.i == i64::MIN); }
        if a == 0 { assert!(o.i == 0); }
        // sign rule of truncation toward zero
        if !(a == i64::MIN && b == -1) {
            if (a > 0) == (b > 0) { assert!(o.i >= 0); } else { assert!(o.i <= 0); }
        }
    }
});
harness!(c08_modulo_int_cheap, {
    let (a, b): (i64, i64) = (kani::any(), kani::any());
    let o = obs_res(modulo::exec(Variable::Int(a), Variable::Int(b)));
    if b == 0 {
        assert!(o.tag == E_ZMOD);
    } else {
        assert!(o.tag == 0);
        if b == 1 || b == -1 { assert!(o.i == 0); }
        if a == 0 { assert!(o.i == 0); }
        // sign of the dividend (or zero)
        if a >= 0 { assert!(o.i >= 0); } else { assert!(o.i <= 0); }
    }
});
#[kani::proof]
#[kani::unwind(6)]
#[kani::stub(crate::variable::Variable::string, stub_string)]
#[kani::stub(crate::variable::Variable::debug, stub_string)]
fn c08_pow_int_small_exponents() {
    // symbolic base, each small exponent concretely (a symbolic exponent makes CBMC unroll
    // wrapping_pow's loop with 64-bit multipliers: does not terminate, see DESIGN 1.2.5)
    let a: i64 = kani::any();
    let o = obs_res(pow::exec(Variable::Int(a), Variable::Int(0)));
    assert!(o.tag == 0 && o.i == 1);
    let o = obs_res(pow::exec(Variable::Int(a), Variable::Int(1)));
    assert!(o.tag == 0 && o.i == a);
    let o = obs_res(pow::exec(Variable::Int(a), Variable::Int(2)));
    assert!(o.tag == 0 && o.i == a.wrapping_mul(a));
    // exponent 3 ((1*a)*(a*a) against a*a*a) is a multiplier-equivalence query: no result in 600 s
}
harness!(c08_pow_negative_exponent, {
    let a: i64 = kani::any();
    let o = obs_res(pow::exec(Variable::Int(a), Variable::Int(-1)));
    assert!(o.tag == E_NEGEXP);
    let o = obs_res(pow::exec(Variable::Int(a), Variable::Int(-2)));
    assert!(o.tag == E_NEGEXP);
    let o = obs_res(pow::exec(Variable::Int(a), Variable::Int(i64::MIN)));
    assert!(o.tag == E_NEGEXP);
});
/// exponents that do not fit in 32 bits (concrete witnesses of "every non-negative exponent")
fn modpow64(mut b: u64, mut e: u64) -> u64 {
    let mut acc: u64 = 1;
    while e > 0 {
        if e & 1 == 1 { acc = acc.wrapping_mul(b); }
        b = b.wrapping_mul(b);
        e >>= 1;
    }
    acc
}
#[kani::proof]
#[kani::unwind(66)]
#[kani::stub(crate::variable::Variable::string, stub_string)]
#[kani::stub(crate::variable::Variable::debug, stub_string)]
fn c08_pow_large_exponent() {
    let bases: [i64; 4] = [2, 3, -1, -2];
    let exps: [i64; 4] = [1 << 32, (1 << 32) + 1, (1 << 33) + 3, i64::MAX];
    let bi: usize = kani::any();
    let ei: usize = kani::any();
    kani::assume(bi < 4 && ei < 4);
    let (b, e) = (bases[bi], exps[ei]);
    let o = obs_res(pow::exec(Variable::Int(b), Variable::Int(e)));
    assert!(o.tag == 0 && o.i == modpow64(b as u64, e as u64) as i64);
}
// =============================================================== C08: shifts / bitwise / not
harness!(c08_lshift, {
    let (a, b): (i64, i64) = (kani::any(), kani::any());
    let o = obs_res(lshift::exec(Variable::Int(a), Variable::Int(b)));
    if 0 <= b && b <= 63 {
        assert!(o.tag == 0 && o.i == ((a as u64) << (b as u32)) as i64);
    } else {
        assert!(o.tag == E_SHIFT);
    }
});
harness!(c08_rshift, {
    let (a, b): (i64, i64) = (kani::any(), kani::any());
    let o = obs_res(rshift::exec(Variable::Int(a), Variable::Int(b)));
    if 0 <= b && b <= 63 {
        assert!(o.tag == 0 && o.i == a >> (b as u32));
        assert!((a >= 0) == (o.i >= 0)); // arithmetic: sign preserved
    } else {
        assert!(o.tag == E_SHIFT);
    }
});
harness!(c08_bitwise_int, {
    let (a, b): (i64, i64) = (kani::any(), kani::any());
    let o = obs(bitwise_and::exec(Variable::Int(a), Variable::Int(b)));
    assert!(o.tag == 0 && o.i == (a & b));
    let o = obs(bitwise_or::exec(Variable::Int(a), Variable::Int(b)));
    assert!(o.tag == 0 && o.i == (a | b));
    let o = obs(xor::exec(Variable::Int(a), Variable::Int(b)));
    assert!(o.tag == 0 && o.i == (a ^ b));
    let o = obs(crate::instruction::prefix_op::not::exec(Variable::Int(a)));
    assert!(o.tag == 0 && o.i == !a && o.i == -1 - a);
});
harness!(c08_bitwise_bool, {
    let (a, b): (bool, bool) = (kani::any(), kani::any());
    let o = obs(bitwise_and::exec(Variable::Bool(a), Variable::Bool(b)));
    assert!(o.tag == 2 && o.b == (a && b));
    let o = obs(bitwise_or::exec(Variable::Bool(a), Variable::Bool(b)));
    assert!(o.tag == 2 && o.b == (a || b));
    let o = obs(xor::exec(Variable::Bool(a), Variable::Bool(b)));
    assert!(o.tag == 2 && o.b == (a != b));
    let o = obs(crate::instruction::prefix_op::not::exec(Variable::Bool(a)));
    assert!(o.tag == 2 && o.b == !a);
});
// =============================================================== C08: comparisons
harness!(c08_compare_int, {
    let (a, b): (i64, i64) = (kani::any(), kani::any());
    let o = obs(greater::exec(Variable::Int(a), Variable::Int(b)));
    assert!(o.tag == 2 && o.b == (a > b));
    let o = obs(greater_equal::exec(Variable::Int(a), Variable::Int(b)));
    assert!(o.tag == 2 && o.b == (a >= b));
    let o = obs(lower::exec(Variable::Int(a), Variable::Int(b)));
    assert!(o.tag == 2 && o.b == (a < b));
    let o = obs(lower_equal::exec(Variable::Int(a), Variable::Int(b)));
    assert!(o.tag == 2 && o.b == (a <= b));
    // signed: a negative number is lower than a positive one
    if a < 0 && b >= 0 {
        let o = obs(lower::exec(Variable::Int(a), Variable::Int(b)));
        assert!(o.b);
    }
});
harness!(c08_compare_float, {
    let (a, b): (f64, f64) = (kani::any(), kani::any());
    let o = obs(greater::exec(Variable::Float(a), Variable::Float(b)));
    assert!(o.tag == 2 && o.b == (a > b));
    let o = obs(greater_equal::exec(Variable::Float(a), Variable::Float(b)));
    assert!(o.tag == 2 && o.b == (a >= b));
    let o = obs(lower::exec(Variable::Float(a), Variable::Float(b)));
    assert!(o.tag == 2 && o.b == (a < b));
    let o = obs(lower_equal::exec(Variable::Float(a), Variable::Float(b)));
    assert!(o.tag == 2 && o.b == (a <= b));
    if a.is_nan() || b.is_nan() {
        // IEEE: every ordered comparison with NaN is false
        assert!(!obs(lower::exec(Variable::Float(a), Variable::Float(b))).b);
        assert!(!obs(greater_equal::exec(Variable::Float(a), Variable::Float(b))).b);
    }
});
// =============================================================== C08: float arithmetic
harness!(c08_add_float, {
    let (a, b): (f64, f64) = (kani::any(), kani::any());
    let o = obs(add::exec(Variable::Float(a), Variable::Float(b)));
    assert!(o.tag == 1 && same_float(o.f, a + b));
});
harness!(c08_subtract_float, {
    let (a, b): (f64, f64) = (kani::any(), kani::any());
    let o = obs(subtract::exec(Variable::Float(a), Variable::Float(b)));
    assert!(o.tag == 1 && same_float(o.f, a - b));
});
harness!(c08_multiply_float, {
    let (a, b): (f64, f64) = (kani::any(), kani::any());
    let o = obs(multiply::exec(Variable::Float(a), Variable::Float(b)));
    assert!(o.tag == 1 && same_float(o.f, a * b));
});
harness!(c08_divide_float_total, {
    // float division never errs (x / 0.0 is +-inf or NaN) and yields a float; the quotient VALUE is not
    // asserted: a symbolic 53-bit divider does not finish in SAT (900 s timeout measured) -> probes only
    let (a, b): (f64, f64) = (kani::any(), kani::any());
    let o = obs_res(divide::exec(Variable::Float(a), Variable::Float(b)));
    assert!(o.tag == 1);
});
harness!(c08_unary_minus_float, {
    let a: f64 = kani::any();
    let o = obs(crate::instruction::prefix_op::unary_minus::exec(Variable::Float(a)));
    assert!(o.tag == 1 && o.f == (a.to_bits() ^ (1u64 << 63)));
});
// =============================================================== C08/C04: fold path == exec path
macro_rules! fold_total {
    ($name:ident, $shape:ident, $m:ident, $op:expr) => {
        // semantic clause: folding two constants gives what exec gives
        harness!($name, {
            let (a, b): (i64, i64) = (kani::any(), kani::any());
            let folded = obs_ins_own($m::create_from_instructions(int(a), int(b)));
            let run = obs($m::exec(Variable::Int(a), Variable::Int(b)));
            assert!(folded == run);
        });
        // structural clause (sufficient for C04, not necessary): a non-constant operand is rebuilt
        // with the same operator and the same operands
        harness!($shape, {
            let (a, b): (i64, i64) = (kani::any(), kani::any());
            let r = $m::create_from_instructions(Instruction::Break, int(b));
            let (t, l, rr, op) = obs_binop(&r);
            std::mem::forget(r);
            assert!(t == 5 && l.tag == 7 && rr.tag == 0 && rr.i == b && op == Some($op));
            let r = $m::create_from_instructions(int(a), Instruction::Continue);
            let (t, l, rr, op) = obs_binop(&r);
            std::mem::forget(r);
            assert!(t == 5 && l.tag == 0 && l.i == a && rr.tag == 8 && op == Some($op));
        });
    };
}
fold_total!(c04_fold_add, c04_foldshape_add, add, BinOperator::Add);
fold_total!(c04_fold_subtract, c04_foldshape_subtract, subtract, BinOperator::Subtract);
fold_total!(c04_fold_multiply, c04_foldshape_multiply, multiply, BinOperator::Multiply);
fold_total!(c04_fold_bitand, c04_foldshape_bitand, bitwise_and, BinOperator::BitwiseAnd);
fold_total!(c04_fold_bitor, c04_foldshape_bitor, bitwise_or, BinOperator::BitwiseOr);
fold_total!(c04_fold_xor, c04_foldshape_xor, xor, BinOperator::Xor);
fold_total!(c04_fold_greater, c04_foldshape_greater, greater, BinOperator::Greater);
fold_total!(c04_fold_greater_equal, c04_foldshape_greater_equal, greater_equal, BinOperator::GreaterOrEqual);
fold_total!(c04_fold_lower, c04_foldshape_lower, lower, BinOperator::Lower);
fold_total!(c04_fold_lower_equal, c04_foldshape_lower_equal, lower_equal, BinOperator::LowerOrEqual);
fold_total!(c04_fold_equal, c04_foldshape_equal, equal, BinOperator::Equal);
fold_total!(c04_fold_not_equal, c04_foldshape_not_equal, not_equal, BinOperator::NotEqual);

macro_rules! fold_partial {
    ($name:ident, $shape:ident, $m:ident, $op:expr, $early:expr, $ecode:expr, $cmp_all:expr) => {
        harness!($name, {
            let (a, b): (i64, i64) = (kani::any(), kani::any());
            let folded = obs_ins_res($m::create_from_instructions(int(a), int(b)));
            let run = obs_res($m::exec(Variable::Int(a), Variable::Int(b)));
            assert!(folded.tag == run.tag);
            // equality of two symbolic 64-bit dividers does not finish in SAT; the value clause of the
            // fold path of / and % is a V obligation (divide.fold / modulo.fold), K compares b in {0,1,-1}
            if $cmp_all || b == 0 || b == 1 || b == -1 { assert!(folded == run); }
            // a constant rhs with a non-constant lhs: an early error ONLY for an operation that fails
            // whenever evaluated, and then the documented one
            let r = $m::create_from_instructions(Instruction::Break, int(b));
            let early: bool = ($early)(b);
            match &r {
                Err(e) => assert!(early && err_code(e) == $ecode),
                Ok(_) => {}
            }
            std::mem::forget(r);
            let r = $m::create_from_instructions(int(a), Instruction::Continue);
            assert!(r.is_ok());
            std::mem::forget(r);
        });
        // structural (sufficient, not necessary): otherwise rebuilt with operands in place; the early error is taken
        harness!($shape, {
            let (a, b): (i64, i64) = (kani::any(), kani::any());
            let r = $m::create_from_instructions(Instruction::Break, int(b));
            let early: bool = ($early)(b);
            match &r {
                Err(_) => assert!(early),
                Ok(i) => {
                    assert!(!early);
                    let (t, l, rr, op) = obs_binop(i);
                    assert!(t == 5 && l.tag == 7 && rr.tag == 0 && rr.i == b && op == Some($op));
                }
            }
            std::mem::forget(r);
            let r = $m::create_from_instructions(int(a), Instruction::Continue);
            match &r {
                Err(_) => assert!(false),
                Ok(i) => {
                    let (t, l, rr, op) = obs_binop(i);
                    assert!(t == 5 && l.tag == 0 && l.i == a && rr.tag == 8 && op == Some($op));
                }
            }
            std::mem::forget(r);
        });
    };
}
fold_partial!(c04_fold_divide, c04_foldshape_divide, divide, BinOperator::Divide, |b: i64| b == 0, E_ZDIV, false);
fold_partial!(c04_fold_modulo, c04_foldshape_modulo, modulo, BinOperator::Modulo, |b: i64| b == 0, E_ZMOD, false);
fold_partial!(c04_fold_lshift, c04_foldshape_lshift, lshift, BinOperator::LShift, |b: i64| !(0 <= b && b <= 63), E_SHIFT, true);
fold_partial!(c04_fold_rshift, c04_foldshape_rshift, rshift, BinOperator::RShift, |b: i64| !(0 <= b && b <= 63), E_SHIFT, true);

harness!(c04_fold_float_ops, {
    let (a, b): (f64, f64) = (kani::any(), kani::any());
    let f = obs_ins_own(add::create_from_instructions(flt(a), flt(b)));
    assert!(f == obs(add::exec(Variable::Float(a), Variable::Float(b))));
    let f = obs_ins_own(subtract::create_from_instructions(flt(a), flt(b)));
    assert!(f == obs(subtract::exec(Variable::Float(a), Variable::Float(b))));
    // a float zero divisor is NOT an early error
    let r = divide::create_from_instructions(Instruction::Break, flt(0.0));
    assert!(r.is_ok());
    std::mem::forget(r);
});
harness!(c04_fold_float_multiply, {
    let (a, b): (f64, f64) = (kani::any(), kani::any());
    let f = obs_ins_own(multiply::create_from_instructions(flt(a), flt(b)));
    assert!(f == obs(multiply::exec(Variable::Float(a), Variable::Float(b))));
});
harness!(c04_fold_unary, {
    let a: i64 = kani::any();
    use crate::instruction::prefix_op::{not, unary_minus};
    let f = obs_ins_own(not::create_from_instruction(int(a)));
    assert!(f == obs(not::exec(Variable::Int(a))));
    let f = obs_ins_own(unary_minus::create_from_instruction(int(a)));
    assert!(f == obs(unary_minus::exec(Variable::Int(a))));
    let b: bool = kani::any();
    let f = obs_ins_own(not::create_from_instruction(boo(b)));
    assert!(f == obs(not::exec(Variable::Bool(b))));
    let r = not::create_from_instruction(Instruction::Break);
    match &r {
        Instruction::UnaryOperation(u) => assert!(u.op == crate::unary_operator::UnaryOperator::Not && obs_ins(&u.instruction).tag == 7),
        _ => assert!(false),
    }
    std::mem::forget(r);
    let r = unary_minus::create_from_instruction(Instruction::Continue);
    match &r {
        Instruction::UnaryOperation(u) => assert!(u.op == crate::unary_operator::UnaryOperator::UnaryMinus && obs_ins(&u.instruction).tag == 8),
        _ => assert!(false),
    }
    std::mem::forget(r);
});
harness!(c04_fold_logic, {
    // and/or with a constant left operand: result is what exec would compute WITHOUT
    // evaluating rhs when lhs decides, and rhs itself (untouched) otherwise
    let l: bool = kani::any();
    let r = and::create_from_instructions(boo(l), Instruction::Break);
    let o = obs_ins(&r);
    std::mem::forget(r);
    if l { assert!(o.tag == 7); } else { assert!(o.tag == 2 && !o.b); }
    let r = or::create_from_instructions(boo(l), Instruction::Break);
    let o = obs_ins(&r);
    std::mem::forget(r);
    if l { assert!(o.tag == 2 && o.b); } else { assert!(o.tag == 7); }
    // non-constant lhs: rebuilt, operands in place
    let r = and::create_from_instructions(Instruction::Continue, boo(l));
    let (t, ll, rr, op) = obs_binop(&r);
    std::mem::forget(r);
    assert!(t == 5 && ll.tag == 8 && rr.tag == 2 && rr.b == l && op == Some(BinOperator::And));
    let r = or::create_from_instructions(Instruction::Continue, boo(l));
    let (t, ll, rr, op) = obs_binop(&r);
    std::mem::forget(r);
    assert!(t == 5 && ll.tag == 8 && rr.tag == 2 && rr.b == l && op == Some(BinOperator::Or));
});
// =============================================================== C19: equality
harness!(c19_scalar_eq, {
    let (a, b): (i64, i64) = (kani::any(), kani::any());
    let (x, y) = (Variable::Int(a), Variable::Int(b));
    assert!((x == y) == (a == b));
    assert!((x == y) == (y == x));
    assert!(x == x);
    let (p, q): (bool, bool) = (kani::any(), kani::any());
    let (bp, bq) = (Variable::Bool(p), Variable::Bool(q));
    assert!((bp == bq) == (p == q));
    assert!(Variable::Void == Variable::Void);
    // different kinds are unequal (also when payload bits coincide)
    assert!(!(x == Variable::Void) && !(Variable::Void == x));
    assert!(!(x == bp) && !(bp == x));
    assert!(!(bp == Variable::Void));
    let f = Variable::Float(a as f64);
    assert!(!(x == f) && !(f == x));
    std::mem::forget((x, y, bp, bq, f));
});
harness!(c19_float_eq, {
    let (a, b): (f64, f64) = (kani::any(), kani::any());
    let (x, y) = (Variable::Float(a), Variable::Float(b));
    assert!((x == y) == (a == b));
    assert!((x == y) == (y == x));
    if a.is_nan() { assert!(!(x == x)); } else { assert!(x == x); }
    assert!(Variable::Float(0.0) == Variable::Float(-0.0));
    std::mem::forget((x, y));
});
harness!(c19_equal_ops, {
    let (a, b): (i64, i64) = (kani::any(), kani::any());
    let e = obs(equal::exec(Variable::Int(a), Variable::Int(b)));
    let n = obs(not_equal::exec(Variable::Int(a), Variable::Int(b)));
    assert!(e.tag == 2 && n.tag == 2 && e.b == (a == b) && n.b == !e.b);
    let (p, q): (f64, f64) = (kani::any(), kani::any());
    let e = obs(equal::exec(Variable::Float(p), Variable::Float(q)));
    let n = obs(not_equal::exec(Variable::Float(p), Variable::Float(q)));
    assert!(e.b == (p == q) && n.b == !e.b);
    let e = obs(equal::exec(Variable::Int(a), Variable::Void));
    let n = obs(not_equal::exec(Variable::Int(a), Variable::Void));
    assert!(!e.b && n.b);
});
fn mk_array(t: Type, elems: Arc<[Variable]>) -> Arc<Array> {
    Arc::new(Array::new_with_type(t, elems))
}
/// arrays with equal content but different hidden element types must be equal
#[kani::proof]
#[kani::unwind(4)]
#[kani::stub(crate::variable::Variable::string, stub_string)]
#[kani::stub(crate::variable::Variable::debug, stub_string)]
fn c19_array_eq_ignores_element_type() {
    // empty arrays: `[]` has element type `!`, `[0; 0]` has element type int
    let e1 = mk_array(Type::Never, Arc::from([]));
    let e2 = mk_array(Type::Int, Arc::from([]));
    let (k1, k2) = (e1.clone(), e2.clone());
    let (v1, v2) = (Variable::Array(e1), Variable::Array(e2));
    assert!(v1 == v2);
    assert!(v2 == v1);
    std::mem::forget((v1, v2, k1, k2));
    // [a] typed [int] versus the same content typed [any]
    let a: i64 = kani::any();
    let b: i64 = kani::any();
    let x = mk_array(Type::Int, Arc::from([Variable::Int(a)]));
    let y = mk_array(Type::Any, Arc::from([Variable::Int(b)]));
    let (kx, ky) = (x.clone(), y.clone());
    let (vx, vy) = (Variable::Array(x), Variable::Array(y));
    assert!((vx == vy) == (a == b));
    assert!((vy == vx) == (a == b));
    std::mem::forget((vx, vy, kx, ky));
    // stored element types that are not related by the subtype relation at all
    let p = mk_array(Type::Float, Arc::from([Variable::Int(a)]));
    let q = mk_array(Type::String, Arc::from([Variable::Int(b)]));
    let (kp, kq) = (p.clone(), q.clone());
    let (vp, vq) = (Variable::Array(p), Variable::Array(q));
    assert!((vp == vq) == (a == b));
    assert!((vq == vp) == (a == b));
    std::mem::forget((vp, vq, kp, kq));
}
#[kani::proof]
#[kani::unwind(4)]
#[kani::stub(crate::variable::Variable::string, stub_string)]
#[kani::stub(crate::variable::Variable::debug, stub_string)]
fn c19_array_eq_elementwise_len2() {
    let (a0, a1, b0, b1): (i64, i64, i64, i64) = (kani::any(), kani::any(), kani::any(), kani::any());
    let x = mk_array(Type::Int, Arc::from([Variable::Int(a0), Variable::Int(a1)]));
    let y = mk_array(Type::Int, Arc::from([Variable::Int(b0), Variable::Int(b1)]));
    let z = mk_array(Type::Int, Arc::from([Variable::Int(b0)]));
    let (kx, ky, kz) = (x.clone(), y.clone(), z.clone());
    let (vx, vy, vz) = (Variable::Array(x), Variable::Array(y), Variable::Array(z));
    assert!((vx == vy) == (a0 == b0 && a1 == b1));
    assert!((vx == vy) == (vy == vx));
    assert!(vx == vx);
    assert!(!(vx == vz) && !(vz == vx)); // different lengths
    assert!(!(vx == Variable::Int(a0)));
    std::mem::forget((vx, vy, vz, kx, ky, kz));
}
// (no harness for "an array/tuple holding NaN is unequal to itself when both operands are the SAME allocation":
//  under Kani's pinned nightly std `Arc<[T]> ==` short-circuits on pointer identity for T: Eq
//  (`impl<T: ?Sized + Eq> MarkerEq for T`), under the repository's stable toolchain it does not, so the
//  harness fails in K but does not replay on the real build — observation D6 in DESIGN; probes cover it)
#[kani::proof]
#[kani::unwind(4)]
#[kani::stub(crate::variable::Variable::string, stub_string)]
#[kani::stub(crate::variable::Variable::debug, stub_string)]
fn c19_tuple_eq_len2() {
    let (a0, a1, b0, b1): (i64, bool, i64, bool) = (kani::any(), kani::any(), kani::any(), kani::any());
    let x: Arc<[Variable]> = Arc::from([Variable::Int(a0), Variable::Bool(a1)]);
    let y: Arc<[Variable]> = Arc::from([Variable::Int(b0), Variable::Bool(b1)]);
    let (kx, ky) = (x.clone(), y.clone());
    let (vx, vy) = (Variable::Tuple(x), Variable::Tuple(y));
    assert!((vx == vy) == (a0 == b0 && a1 == b1));
    assert!((vx == vy) == (vy == vx));
    std::mem::forget((vx, vy, kx, ky));
}
// (a bounded harness for string equality — two symbolic 2-byte ASCII strings — did not finish in 600 s: strings are probed only)
harness!(c19_mut_identity, {
    use crate::variable::Mut;
    let a: i64 = kani::any();
    let m1: Arc<Mut> = Arc::new(Mut { var_type: Type::Int, variable: Variable::Int(a).into() });
    let m2: Arc<Mut> = Arc::new(Mut { var_type: Type::Int, variable: Variable::Int(a).into() });
    let alias = m1.clone();
    let (k1, k2) = (m1.clone(), m2.clone());
    let (v1, v2, v3) = (Variable::Mut(m1), Variable::Mut(m2), Variable::Mut(alias));
    assert!(v1 == v3 && v3 == v1); // same cell
    assert!(!(v1 == v2) && !(v2 == v1)); // equal content, different cells
    std::mem::forget((v1, v2, v3, k1, k2));
});
// =============================================================== C09: indexing / len
fn arr3() -> Arc<Array> {
    mk_array(Type::Int, Arc::from([Variable::Int(10), Variable::Int(11), Variable::Int(12)]))
}
#[kani::proof]
#[kani::unwind(5)]
#[kani::stub(crate::variable::Variable::string, stub_string)]
#[kani::stub(crate::variable::Variable::debug, stub_string)]
fn c09_at_exec_array_len3() {
    let arr = arr3();
    let keep = arr.clone();
    let i: i64 = kani::any();
    let o = obs_res(crate::instruction::at::exec(Variable::Array(arr), Variable::Int(i)));
    std::mem::forget(keep);
    if -3 <= i && i < 3 {
        assert!(o.tag == 0 && o.i == 10 + if i >= 0 { i } else { 3 + i });
    } else {
        assert!(o.tag == E_INDEX);
    }
}
#[kani::proof]
#[kani::unwind(5)]
#[kani::stub(crate::variable::Variable::string, stub_string)]
#[kani::stub(crate::variable::Variable::debug, stub_string)]
fn c09_at_exec_array_len0() {
    let arr = mk_array(Type::Never, Arc::from([]));
    let keep = arr.clone();
    let i: i64 = kani::any();
    let o = obs_res(crate::instruction::at::exec(Variable::Array(arr), Variable::Int(i)));
    std::mem::forget(keep);
    assert!(o.tag == E_INDEX);
}
#[kani::proof]
#[kani::unwind(5)]
#[kani::stub(crate::variable::Variable::string, stub_string)]
#[kani::stub(crate::variable::Variable::debug, stub_string)]
fn c09_len_array_len3() {
    let arr = arr3();
    let keep = arr.clone();
    let v = Variable::Array(arr);
    assert!(crate::stdlib::len(&v) == 3);
    std::mem::forget((v, keep));
}
#[kani::proof]
#[kani::unwind(5)]
#[kani::stub(crate::variable::Variable::string, stub_string)]
#[kani::stub(crate::variable::Variable::debug, stub_string)]
fn c09_at_range() {
    // fold path of indexing: early IndexOutOfBounds exactly when the constant index is outside -n..n
    let i: i64 = kani::any();
    let arr = arr3();
    let keep = arr.clone();
    let f = obs_ins_res(crate::instruction::at::create_from_instructions(
        Instruction::Variable(Variable::Array(arr)), int(i)));
    std::mem::forget(keep);
    if -3 <= i && i < 3 {
        assert!(f.tag == 0 && f.i == 10 + if i >= 0 { i } else { 3 + i });
    } else {
        assert!(f.tag == E_INDEX);
    }
}
/// strings are indexed by Unicode scalar value: "aé€" has 1-, 2- and 3-byte scalars
#[kani::proof]
#[kani::unwind(8)]
#[kani::stub(crate::variable::Variable::string, stub_string)]
#[kani::stub(crate::variable::Variable::debug, stub_string)]
fn c09_at_exec_string_multibyte() {
    let s: Arc<str> = Arc::from("a\u{e9}\u{20ac}");
    let keep = s.clone();
    let i: i64 = kani::any();
    let r = crate::instruction::at::exec(Variable::String(s), Variable::Int(i));
    let code: u32 = match &r {
        Ok(Variable::String(c)) => {
            let mut it = c.chars();
            match (it.next(), it.next()) {
                (Some(ch), None) => ch as u32,
                _ => 1,
            }
        }
        Ok(_) => 2,
        Err(e) => 100 + err_code(e) as u32,
    };
    std::mem::forget((r, keep));
    let j = if i >= 0 { i } else { 3 + i };
    if -3 <= i && i < 3 {
        let want = if j == 0 { 'a' as u32 } else if j == 1 { 0xe9 } else { 0x20ac };
        assert!(code == want);
    } else {
        assert!(code == 100 + E_INDEX as u32);
    }
}
#[kani::proof]
#[kani::unwind(8)]
#[kani::stub(crate::variable::Variable::string, stub_string)]
#[kani::stub(crate::variable::Variable::debug, stub_string)]
fn c09_len_string_multibyte() {
    let s: Arc<str> = Arc::from("a\u{e9}\u{20ac}");
    let keep = s.clone();
    let v = Variable::String(s);
    assert!(crate::stdlib::len(&v) == 3);
    std::mem::forget((v, keep));
}
/// assumed contract on the dependency `slyce`: Python slice semantics on a 3-element slice
fn py_slice_indices(n: i64, start: Option<i64>, stop: Option<i64>, step: Option<i64>, out: &mut [i64; 3]) -> usize {
    let step = step.unwrap_or(1);
    let mut cnt = 0usize;
    if step == 0 { return 0; }
    let (lo, hi) = if step > 0 { (0, n) } else { (-1, n - 1) };
    let norm = |v: Option<i64>, def: i64| -> i64 {
        match v {
            None => def,
            Some(v) => {
                let v = if v < 0 { v + n } else { v };
                if v < lo { lo } else if v > hi { hi } else { v }
            }
        }
    };
    let (s, e) = if step > 0 { (norm(start, 0), norm(stop, n)) } else { (norm(start, n - 1), norm(stop, -1)) };
    let mut i = s;
    let mut guard = 0;
    while guard < 4 && ((step > 0 && i < e) || (step < 0 && i > e)) {
        if cnt < 3 { out[cnt] = i; }
        cnt += 1;
        i += step;
        guard += 1;
    }
    cnt
}
#[kani::proof]
#[kani::unwind(6)]
fn c09_slyce_python_semantics_len3() {
    let data: [i64; 3] = [10, 11, 12];
    let n: usize = kani::any();
    kani::assume(n <= 3);
    let (start, stop, step): (Option<i64>, Option<i64>, Option<i64>) = (kani::any(), kani::any(), kani::any());
    if let Some(s) = start { kani::assume(-5 <= s && s <= 5); }
    if let Some(s) = stop { kani::assume(-5 <= s && s <= 5); }
    if let Some(s) = step { kani::assume(-4 <= s && s <= 4); }
    let sl = slyce::Slice {
        start: start.map(|i| i as isize).into(),
        end: stop.map(|i| i as isize).into(),
        step: step.map(|i| i as isize),
    };
    let mut want = [0i64; 3];
    let cnt = py_slice_indices(n as i64, start, stop, step, &mut want);
    let mut got = 0usize;
    for x in sl.apply(&data[..n]) {
        assert!(got < cnt && *x == data[want[got] as usize]);
        got += 1;
    }
    assert!(got == cnt);
}

// =============================================================== conformance of the V prelude's models
// The Verus prelude MODELS code that macros generate (enum-as-inner accessors, derive_more From impls) and two std
// functions; these harnesses prove on the real crate that the models say what the generated code does.
harness!(model_enum_as_inner_accessors, {
    let (a, b): (i64, bool) = (kani::any(), kani::any());
    // into_int: Ok(payload) on Int, Err(self) otherwise (the value is handed back unchanged)
    match Variable::Int(a).into_int() { Ok(x) => assert!(x == a), Err(v) => { std::mem::forget(v); assert!(false) } }
    match Variable::Bool(b).into_int() { Ok(_) => assert!(false), Err(v) => { assert!(obs_var(&v) == obs_var(&Variable::Bool(b))); std::mem::forget(v) } }
    match Variable::Bool(b).into_bool() { Ok(x) => assert!(x == b), Err(v) => { std::mem::forget(v); assert!(false) } }
    match Variable::Int(a).into_bool() { Ok(_) => assert!(false), Err(v) => { assert!(obs_var(&v) == obs_var(&Variable::Int(a))); std::mem::forget(v) } }
    match Variable::Void.into_bool() { Ok(_) => assert!(false), Err(v) => { assert!(obs_var(&v).tag == 3); std::mem::forget(v) } }
    match Variable::Int(a).into_mut() { Ok(m) => { std::mem::forget(m); assert!(false) }, Err(v) => { assert!(obs_var(&v) == obs_var(&Variable::Int(a))); std::mem::forget(v) } }
    match Variable::Int(a).into_tuple() { Ok(m) => { std::mem::forget(m); assert!(false) }, Err(v) => { std::mem::forget(v) } }
    match Variable::Int(a).into_function() { Ok(m) => { std::mem::forget(m); assert!(false) }, Err(v) => { std::mem::forget(v) } }
});
harness!(model_from_impls, {
    let (a, b): (i64, bool) = (kani::any(), kani::any());
    let f: f64 = kani::any();
    assert!(obs(Variable::from(a)) == obs_var(&Variable::Int(a)));
    assert!(obs(Variable::from(b)) == obs_var(&Variable::Bool(b)));
    assert!(obs(Variable::from(f)).tag == 1 && obs(Variable::from(f)).f == f.to_bits());
    // derive_more::From on Instruction wraps the operation without touching it
    let i = Instruction::from(BinOperation { lhs: Instruction::Break, rhs: int(a), op: BinOperator::Subtract });
    let (t, l, r, op) = obs_binop(&i);
    std::mem::forget(i);
    assert!(t == 5 && l.tag == 7 && r.tag == 0 && r.i == a && op == Some(BinOperator::Subtract));
    let v = Instruction::from(Variable::Int(a));
    assert!(obs_ins(&v) == obs_var(&Variable::Int(a)));
    std::mem::forget(v);
    // ExecError -> ExecStop is the Error variant carrying the same error
    let s = crate::instruction::ExecStop::from(ExecError::ZeroModulo);
    assert!(matches!(s, crate::instruction::ExecStop::Error(ExecError::ZeroModulo)));
    std::mem::forget(s);
});
harness!(model_std_wrapping_contracts, {
    let (a, b): (i64, i64) = (kani::any(), kani::any());
    // the assumed Verus contracts of std, on the cases SAT can decide (full quotient equality is out of reach)
    assert!(a.wrapping_neg() == ((-(a as i128)) as i64));
    if b == 1 { assert!(a.wrapping_div(b) == a && a.wrapping_rem(b) == 0); }
    if b == -1 { assert!(a.wrapping_div(b) == a.wrapping_neg() && a.wrapping_rem(b) == 0); }
    if b != 0 && b != -1 {
        let (q, r) = (a.wrapping_div(b), a.wrapping_rem(b));
        // sign rules of truncation toward zero and of the remainder
        if a >= 0 { assert!(r >= 0); } else { assert!(r <= 0); }
        if (a > 0) == (b > 0) { assert!(q >= 0); } else { assert!(q <= 0); }
    }
});

// =============================================================== C13: assign::exec / try_exec on a REAL cell
// (needs cbmc --max-field-sensitivity-array-size >= 80, set in the scratch copy's Cargo.toml by lib/kscratch.sh: ArcInner<Mut>
//  is larger than 64 bytes; with the default the cell is one array symbol, the RwLock state / Arc count / enum tags are not
//  constant-propagated and symex never leaves RwLock::write_contended)
fn mk_cell(a: i64) -> Arc<crate::variable::Mut> {
    Arc::new(crate::variable::Mut {
        var_type: Type::Int,
        variable: std::sync::RwLock::new(Variable::Int(a)),
    })
}
/// observe the content of a cell through a kept clone (the guard is forgotten: no unlock code).
/// Use only AFTER the call under test: the cell stays read-locked.
fn read_cell(cell: &Arc<crate::variable::Mut>) -> Obs {
    let g = cell.variable.read().unwrap();
    let o = obs_var(&*g);
    std::mem::forget(g);
    o
}
harness!(c13_assign_exec_add_cell, {
    let (a, b): (i64, i64) = (kani::any(), kani::any());
    let cell = mk_cell(a);
    let keep = cell.clone();
    let o = obs(assign::exec(Variable::Mut(cell), Variable::Int(b), add::exec));
    assert!(o.tag == 0 && o.i == a.wrapping_add(b)); // yields content op v
    let s = read_cell(&keep);
    assert!(s == o); // stored == yielded, seen through an alias of the cell
    std::mem::forget(keep);
});
harness!(c13_assign_exec_plain_assignment_cell, {
    // `c = v`: BinOperation::exec passes the closure `|_, b| b`
    let (a, b): (i64, i64) = (kani::any(), kani::any());
    let cell = mk_cell(a);
    let keep = cell.clone();
    let o = obs(assign::exec(Variable::Mut(cell), Variable::Int(b), |old: Variable, new: Variable| {
        std::mem::forget(old);
        new
    }));
    assert!(o.tag == 0 && o.i == b); // yields v
    let s = read_cell(&keep);
    assert!(s == o); // stores v
    std::mem::forget(keep);
});
harness!(c13_assign_try_exec_divide_cell, {
    let (a, b): (i64, i64) = (kani::any(), kani::any());
    let cell = mk_cell(a);
    let keep = cell.clone();
    let o = obs_res(assign::try_exec(Variable::Mut(cell), Variable::Int(b), divide::exec));
    let s = read_cell(&keep);
    if b == 0 {
        assert!(o.tag == E_ZDIV); // the operator's error ...
        assert!(s.tag == 0 && s.i == a); // ... and the cell is left alone
    } else {
        assert!(o.tag == 0);
        assert!(s == o); // stored == yielded, all a, all b != 0
        if b == 1 { assert!(o.i == a); }
        if b == -1 { assert!(o.i == a.wrapping_neg()); }
        if a == 0 { assert!(o.i == 0); }
    }
    std::mem::forget(keep);
});
harness!(c13_assign_try_exec_shift_cell, {
    let (a, b): (i64, i64) = (kani::any(), kani::any());
    let cell = mk_cell(a);
    let keep = cell.clone();
    let o = obs_res(assign::try_exec(Variable::Mut(cell), Variable::Int(b), lshift::exec));
    let s = read_cell(&keep);
    if 0 <= b && b <= 63 {
        assert!(o.tag == 0 && o.i == a << (b as u32));
        assert!(s == o);
    } else {
        assert!(o.tag == E_SHIFT);
        assert!(s.tag == 0 && s.i == a); // a failing update leaves the cell alone
    }
    std::mem::forget(keep);
});
harness!(c13_assign_try_exec_divide_small_divisors_cell, {
    let (a, b): (i64, i64) = (kani::any(), kani::any());
    kani::assume(b == 1 || b == 2 || b == -1);
    let cell = mk_cell(a);
    let keep = cell.clone();
    let o = obs_res(assign::try_exec(Variable::Mut(cell), Variable::Int(b), divide::exec));
    let s = read_cell(&keep);
    assert!(o.tag == 0 && o.i == a.wrapping_div(b));
    assert!(s == o);
    std::mem::forget(keep);
});
harness!(c13_indirection_reads_cell, {
    let a: i64 = kani::any();
    let cell = mk_cell(a);
    let keep = cell.clone();
    let o = obs(crate::instruction::prefix_op::indirection::exec(Variable::Mut(cell)));
    assert!(o.tag == 0 && o.i == a);
    std::mem::forget(keep);
});

// ---- std contract behind Interpreter::exec / recreate_instructions (assumed by back end V): `iter().map(f).collect::<Result<_, _>>()`
// calls f on the elements left to right, each at most once, and stops at the first Err (bounded: length 3, every Ok/Err pattern)
#[kani::proof]
#[kani::unwind(5)]
fn model_iter_map_collect_left_to_right_stops_at_first_err() {
    let fails: [bool; 3] = [kani::any(), kani::any(), kani::any()];
    let items: [u8; 3] = [0, 1, 2];
    let mut log: [u8; 4] = [9, 9, 9, 9];
    let mut n: usize = 0;
    let r: Result<Arc<[u8]>, u8> = items
        .iter()
        .map(|i| {
            log[n] = *i;
            n += 1;
            if fails[*i as usize] { Err(*i) } else { Ok(*i + 10) }
        })
        .collect();
    let first_fail = if fails[0] { 0 } else if fails[1] { 1 } else if fails[2] { 2 } else { 3 };
    // visited exactly the prefix up to and including the first failing element, in order
    assert!(n == if first_fail == 3 { 3 } else { first_fail + 1 });
    assert!(log[0] == 0 && (n < 2 || log[1] == 1) && (n < 3 || log[2] == 2));
    match &r {
        Ok(v) => {
            assert!(first_fail == 3);
            assert!(v.len() == 3 && v[0] == 10 && v[1] == 11 && v[2] == 12);
        }
        Err(e) => assert!(first_fail < 3 && *e as usize == first_fail),
    }
    std::mem::forget(r);
}

// =============================================================== composite instructions through the REAL Instruction::exec
// (thorough tier: everything reachable from Instruction::exec is the whole crate, 3-7 min of goto processing per harness).
// Needs cbmc --max-field-sensitivity-array-size 256 (ArcInner<BinOperation> > 64 bytes) AND the RandomState stub:
// HashMap::new() -> RandomState::new() -> weak-linked libc getrandom through a function pointer, which CBMC's function-pointer
// removal resolves to hashbrown's rehash closure; symex then hashes garbage forever.
use crate::instruction::{ExecResult, ExecStop, InstructionWithStr};
pub fn stub_random_state() -> std::hash::RandomState {
    unsafe { std::mem::transmute::<[u64; 2], std::hash::RandomState>([0, 0]) }
}
macro_rules! harness_i {
    ($name:ident, $body:block) => {
        #[kani::proof]
        #[kani::stub(crate::variable::Variable::string, stub_string)]
        #[kani::stub(crate::variable::Variable::debug, stub_string)]
        #[kani::stub(std::hash::RandomState::new, stub_random_state)]
        fn $name() $body
    };
}
fn obs_stop(r: &ExecResult) -> Obs {
    match r {
        Ok(v) => obs_var(v),
        Err(ExecStop::Error(e)) => Obs { tag: err_code(e), i: 0, f: 0, b: false },
        Err(ExecStop::Break) => Obs { tag: 20, i: 0, f: 0, b: false },
        Err(ExecStop::Continue) => Obs { tag: 21, i: 0, f: 0, b: false },
        Err(ExecStop::Return(_)) => Obs { tag: 22, i: 0, f: 0, b: false },
    }
}
fn binop(lhs: Instruction, rhs: Instruction, op: BinOperator) -> Instruction {
    Instruction::BinOperation(Arc::new(BinOperation { lhs, rhs, op }))
}
fn iws(instruction: Instruction) -> InstructionWithStr {
    InstructionWithStr { instruction, str: Arc::from("") }
}
/// 1 / 0 : fails with ZeroDivision when evaluated
fn fails_zdiv() -> Instruction { binop(int(1), int(0), BinOperator::Divide) }
/// 1 << 64 : fails with OverflowShift when evaluated
fn fails_shift() -> Instruction { binop(int(1), int(64), BinOperator::LShift) }

harness_i!(c07_binop_exec_subtract_through_dispatch, {
    let (a, b): (i64, i64) = (kani::any(), kani::any());
    let op = BinOperation { lhs: int(a), rhs: int(b), op: BinOperator::Subtract };
    let mut interp = Interpreter::without_stdlib();
    let r = op.exec(&mut interp);
    let o = obs_stop(&r);
    std::mem::forget(r);
    std::mem::forget(op);
    std::mem::forget(interp);
    assert!(o.tag == 0 && o.i == a.wrapping_sub(b));
});
harness_i!(c07_binop_exec_and_short_circuit, {
    let rhs = fails_zdiv();
    let op = BinOperation { lhs: boo(false), rhs, op: BinOperator::And };
    let mut interp = Interpreter::without_stdlib();
    let r = op.exec(&mut interp);
    let o = obs_stop(&r);
    std::mem::forget(r);
    std::mem::forget(op);
    std::mem::forget(interp);
    assert!(o.tag == 2 && o.b == false);
});
harness_i!(c07_binop_exec_and_true_evaluates_rhs, {
    let rhs = fails_zdiv();
    let op = BinOperation { lhs: boo(true), rhs, op: BinOperator::And };
    let mut interp = Interpreter::without_stdlib();
    let r = op.exec(&mut interp);
    let o = obs_stop(&r);
    std::mem::forget(r);
    std::mem::forget(op);
    std::mem::forget(interp);
    assert!(o.tag == E_ZDIV);
});
harness_i!(c07_binop_exec_lhs_before_rhs, {
    // both operands fail, with different errors: the error tells which one was evaluated first
    let op = BinOperation { lhs: fails_zdiv(), rhs: fails_shift(), op: BinOperator::Add };
    let mut interp = Interpreter::without_stdlib();
    let r = op.exec(&mut interp);
    let o = obs_stop(&r);
    std::mem::forget(r);
    std::mem::forget(op);
    std::mem::forget(interp);
    assert!(o.tag == E_ZDIV);
});
harness_i!(c12_if_else_exec_selects_branch, {
    let c: bool = kani::any();
    let (x, y): (i64, i64) = (kani::any(), kani::any());
    let ie = crate::instruction::control_flow::IfElse {
        condition: iws(boo(c)),
        if_true: iws(int(x)),
        if_false: iws(int(y)),
    };
    let mut interp = Interpreter::without_stdlib();
    let r = ie.exec(&mut interp);
    let o = obs_stop(&r);
    std::mem::forget(r);
    std::mem::forget(ie);
    std::mem::forget(interp);
    assert!(o.tag == 0 && o.i == if c { x } else { y });
});
harness_i!(c12_if_else_exec_untaken_branch_not_evaluated, {
    let c: bool = kani::any();
    let ie = crate::instruction::control_flow::IfElse {
        condition: iws(boo(c)),
        if_true: iws(fails_zdiv()),
        if_false: iws(fails_shift()),
    };
    let mut interp = Interpreter::without_stdlib();
    let r = ie.exec(&mut interp);
    let o = obs_stop(&r);
    std::mem::forget(r);
    std::mem::forget(ie);
    std::mem::forget(interp);
    assert!(o.tag == if c { E_ZDIV } else { E_SHIFT });
});
