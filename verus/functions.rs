// ----- function creation (AnonymousFunction / FunctionDeclaration: exec and recreate) -----------------------------
// The two environments are abstract (HashMap-based layered maps: outside Verus).  What the units prove is the plumbing:
// WHICH environment the body of a closure is folded in, that the folded body (and nothing else) becomes the body of the
// function value, that parameters / result type / name are kept, and where the function value is bound.

/// environment a closure body is folded in when the closure is created at run time:
/// `LocalVariables::from_params(params, interpreter)` - the parameters (as types) over the CURRENT run-time interpreter
pub uninterp spec fn lv_from_params(p: Params, s: int) -> int;
/// `LocalVariables::function_layer(layer, info)`: a new function layer over the folding environment `s`
pub uninterp spec fn lv_function_layer(s: int, layer: LocalVariableMap, info: FunctionInfo) -> int;
/// `LocalVariableMap::from(params)` (impl From<Params> for LocalVariableMap, src/function/param.rs)
pub uninterp spec fn lvm_of_params(p: Params) -> LocalVariableMap;
/// the function VALUE (Arc<Function>) holding the function `f`
pub uninterp spec fn fun_wrap(f: Function) -> FunV;

pub struct LocalVariableMap { pub id: Ghost<int> }     // HashMap<Arc<str>, LocalVariable>
pub struct FunctionInfo { pub name: Option<Name>, pub return_type: Type }   // src/instruction/local_variable.rs (fields as in /repo)

impl FunctionInfo {
    // verbatim one-liner of /repo (`Self { name, return_type }`), restated as a contract
    #[verifier::external_body]
    pub fn new(name: Option<Name>, return_type: Type) -> (r: FunctionInfo)
        ensures r == (FunctionInfo { name, return_type }) { unimplemented!() }
}
impl LocalVariables {
    #[verifier::external_body]
    pub fn from_params(params: Params, interpreter: &Interpreter) -> (r: LocalVariables)
        ensures r.st@ == lv_from_params(params, interpreter.st@) { unimplemented!() }
    #[verifier::external_body]
    pub fn function_layer(&self, layer: LocalVariableMap, function: FunctionInfo) -> (r: LocalVariables)
        ensures r.st@ == lv_function_layer(self.st@, layer, function) { unimplemented!() }
}
impl Clone for Params {
    #[verifier::external_body]
    fn clone(&self) -> (r: Self) ensures r == *self { unimplemented!() }
}
impl vstd::std_specs::convert::FromSpecImpl<Params> for LocalVariableMap {
    open spec fn obeys_from_spec() -> bool { true }
    open spec fn from_spec(v: Params) -> LocalVariableMap { lvm_of_params(v) }
}
impl From<Params> for LocalVariableMap {
    #[verifier::external_body]
    fn from(v: Params) -> (r: LocalVariableMap) { unimplemented!() }
}
// derive_more::From on Variable for Function / Arc<Function>: wraps the function into a function value
impl vstd::std_specs::convert::FromSpecImpl<Function> for Variable {
    open spec fn obeys_from_spec() -> bool { true }
    open spec fn from_spec(v: Function) -> Variable { Variable::Function(fun_wrap(v)) }
}
impl From<Function> for Variable {
    #[verifier::external_body]
    fn from(v: Function) -> (r: Variable) { unimplemented!() }
}
impl vstd::std_specs::convert::FromSpecImpl<Arc<Function>> for Variable {
    open spec fn obeys_from_spec() -> bool { true }
    open spec fn from_spec(v: Arc<Function>) -> Variable { Variable::Function(fun_wrap(*v)) }
}
impl From<Arc<Function>> for Variable {
    #[verifier::external_body]
    fn from(v: Arc<Function>) -> (r: Variable) { unimplemented!() }
}
// derive_more::From on Instruction
impl vstd::std_specs::convert::FromSpecImpl<AnonymousFunction> for Instruction {
    open spec fn obeys_from_spec() -> bool { true }
    open spec fn from_spec(v: AnonymousFunction) -> Instruction { Instruction::AnonymousFunction(v) }
}
impl From<AnonymousFunction> for Instruction { fn from(v: AnonymousFunction) -> (r: Instruction) { Instruction::AnonymousFunction(v) } }
impl vstd::std_specs::convert::FromSpecImpl<FunctionDeclaration> for Instruction {
    open spec fn obeys_from_spec() -> bool { true }
    open spec fn from_spec(v: FunctionDeclaration) -> Instruction { Instruction::FunctionDeclaration(Arc::new(v)) }
}
impl From<FunctionDeclaration> for Instruction { fn from(v: FunctionDeclaration) -> (r: Instruction) { Instruction::FunctionDeclaration(Arc::new(v)) } }

// std: `impl<T> From<T> for Arc<T>` moves the value into a new Arc
pub assume_specification<T> [<Arc<T> as From<T>>::from] (v: T) -> (r: Arc<T>)
    ensures *r == v;

/// the body `b` is, element by element, the list `is` of recreated instructions (texts kept)
pub open spec fn body_is(b: Arc<[InstructionWithStr]>, is: Seq<Instruction>, orig: Seq<InstructionWithStr>) -> bool {
    b@.len() == is.len()
    && (forall|i: int| 0 <= i < is.len() ==> (#[trigger] b@[i]).instruction == is[i] && b@[i].str == orig[i].str)
}
