// ---------------------------------------------------------------------------------
// Spec prelude for the Verus back end (trusted base of back end V).
//
// Everything in this file is either (a) a mathematical definition used in contracts,
// (b) a *model type* standing for a type of /repo or of a dependency whose real
// definition Verus cannot ingest, or (c) an *assumed contract* on a function that is
// not verified here (std, dependencies, derive-generated code, or repo functions
// outside the verifier's reach).  (b) and (c) are assumptions and are listed in every
// evidence file by a mechanical scan for `external_body` / `assume_specification` /
// `uninterp`.
//
// Types of /repo that Verus *can* ingest (BinOperator, UnaryOperator, ExecError,
// ExecStop, and the instruction structs) are NOT written here: the extractor copies
// them from the current working tree at //@TYPES.
// ---------------------------------------------------------------------------------
use vstd::prelude::*;
#[allow(unused_imports)]
use vstd::arithmetic::power::pow;
use std::sync::Arc;

verus! {

global size_of usize == 8;

// ----- (a) mathematics ------------------------------------------------------------

/// two's-complement reduction of a mathematical integer to the i64 range
pub open spec fn wrap64(x: int) -> int {
    let m = x % 0x1_0000_0000_0000_0000;
    if m >= 0x8000_0000_0000_0000 { m - 0x1_0000_0000_0000_0000 } else { m }
}

/// division truncating toward zero (mathematical, unbounded)
pub open spec fn trunc_div(a: int, b: int) -> int
    recommends b != 0
{
    if a >= 0 && b > 0 { a / b }
    else if a < 0 && b > 0 { -((-a) / b) }
    else if a >= 0 && b < 0 { -(a / (-b)) }
    else { (-a) / (-b) }
}

/// remainder with the sign of the dividend (mathematical)
pub open spec fn trunc_rem(a: int, b: int) -> int
    recommends b != 0
{
    a - b * trunc_div(a, b)
}

// ----- (c) assumed contracts on std ---------------------------------------------------
// vstd already specifies i64::wrapping_add / wrapping_sub / wrapping_mul, Option::ok_or,
// Result::map, Option::unwrap, Option::unwrap_or, slice::last.

pub assume_specification[ i64::wrapping_div ](a: i64, b: i64) -> (r: i64)
    requires b != 0,
    ensures r as int == wrap64(trunc_div(a as int, b as int));

pub assume_specification[ i64::wrapping_rem ](a: i64, b: i64) -> (r: i64)
    requires b != 0,
    ensures r as int == (if b == -1 { 0 } else { trunc_rem(a as int, b as int) });

pub assume_specification[ i64::wrapping_neg ](a: i64) -> (r: i64)
    ensures r as int == wrap64(-(a as int));

pub assume_specification[ i64::wrapping_pow ](b: i64, e: u32) -> (r: i64)
    ensures r as int == wrap64(pow(b as int, e as nat));

pub assume_specification<T>[ core::mem::replace ](dest: &mut T, src: T) -> (r: T)
    ensures *final(dest) == src, r == *old(dest);

pub uninterp spec fn spec_powf(b: f64, e: f64) -> f64;
pub assume_specification[ f64::powf ](b: f64, e: f64) -> (r: f64)
    ensures r == spec_powf(b, e);

pub assume_specification<'a, T: Clone, E> [ core::result::Result::<&'a T, E>::cloned ]
    (s: Result<&'a T, E>) -> (r: Result<T, E>)
    ensures
        s is Ok ==> r is Ok && r->Ok_0 == *(s->Ok_0),
        s is Err ==> r is Err && r->Err_0 == s->Err_0;

// ----- (b) model of the value domain ------------------------------------------------
// `Variable` in /repo is
//   enum Variable { Bool(bool), Int(i64), Float(f64), String(Arc<str>), Function(Arc<Function>),
//                   Array(Arc<Array>), Tuple(Arc<[Variable]>), Mut(Arc<Mut>), Struct(Arc<VariableMap>), Void }
// The scalar variants are the real ones.  The heap variants carry model types with a
// ghost view; their methods are assumed contracts.

pub struct Str { pub chars: Ghost<Seq<char>> }          // Arc<str>, viewed as its Unicode scalar values
pub struct Arr { pub elems: Ghost<Seq<Variable>> }       // Arc<Array>, viewed as its elements (element_type not modelled)
pub struct Tup { pub elems: Ghost<Seq<Variable>> }       // Arc<[Variable]>
pub struct FunV { pub id: Ghost<int> }                   // Arc<Function>
pub struct MutV { pub id: Ghost<int>, pub variable: RwLockM }   // Arc<Mut>; `variable` is the RwLock<Variable> of variable::Mut
pub struct RwLockM { pub id: Ghost<int> }                // std::sync::RwLock<Variable>
pub struct GuardM { pub content: Variable }              // RwLockWriteGuard<Variable>
pub struct StructV { pub id: Ghost<int>, pub map: VarMap }   // Arc<VariableMap>
pub struct VarMap { pub fields: Ghost<Map<Seq<char>, Variable>> }   // HashMap<Arc<str>, Variable>, viewed as a map from field names

pub enum Variable {
    Bool(bool),
    Int(i64),
    Float(f64),
    String(Str),
    Function(FunV),
    Array(Arr),
    Tuple(Tup),
    Mut(MutV),
    Struct(StructV),
    Void,
}

// derive_more::From on Variable (bool, i64, f64, String) — assumed to build the obvious variant
impl vstd::std_specs::convert::FromSpecImpl<i64> for Variable {
    open spec fn obeys_from_spec() -> bool { true }
    open spec fn from_spec(v: i64) -> Variable { Variable::Int(v) }
}
impl From<i64> for Variable { fn from(v: i64) -> (r: Variable) { Variable::Int(v) } }
impl vstd::std_specs::convert::FromSpecImpl<f64> for Variable {
    open spec fn obeys_from_spec() -> bool { true }
    open spec fn from_spec(v: f64) -> Variable { Variable::Float(v) }
}
impl From<f64> for Variable { fn from(v: f64) -> (r: Variable) { Variable::Float(v) } }
impl vstd::std_specs::convert::FromSpecImpl<bool> for Variable {
    open spec fn obeys_from_spec() -> bool { true }
    open spec fn from_spec(v: bool) -> Variable { Variable::Bool(v) }
}
impl From<bool> for Variable { fn from(v: bool) -> (r: Variable) { Variable::Bool(v) } }

pub uninterp spec fn spec_string_value(s: String) -> Seq<char>;
impl vstd::std_specs::convert::FromSpecImpl<String> for Variable {
    open spec fn obeys_from_spec() -> bool { true }
    open spec fn from_spec(v: String) -> Variable { Variable::String(Str { chars: Ghost(spec_string_value(v)) }) }
}
impl From<String> for Variable {
    #[verifier::external_body]
    fn from(v: String) -> (r: Variable) { unimplemented!() }
}
impl vstd::std_specs::convert::FromSpecImpl<Arr> for Variable {
    open spec fn obeys_from_spec() -> bool { true }
    open spec fn from_spec(v: Arr) -> Variable { Variable::Array(v) }
}
impl From<Arr> for Variable { fn from(v: Arr) -> (r: Variable) { Variable::Array(v) } }
// From<Arc<[Variable]>> for Variable builds an array of the elements (Array::from computes the element type)
impl vstd::std_specs::convert::FromSpecImpl<Tup> for Variable {
    open spec fn obeys_from_spec() -> bool { true }
    open spec fn from_spec(v: Tup) -> Variable { Variable::Array(Arr { elems: v.elems }) }
}
impl From<Tup> for Variable { fn from(v: Tup) -> (r: Variable) { Variable::Array(Arr { elems: v.elems }) } }

// `Array` associated functions used by operator bodies (src/variable/array.rs) — not verified here
//@BEGIN opaque_array_value
pub struct Array {}
//@END opaque_array_value
pub struct ArrayOwned { pub elems: Ghost<Seq<Variable>> }   // an `Array` value before it is put in an Arc
impl vstd::std_specs::convert::FromSpecImpl<ArrayOwned> for Arr {
    open spec fn obeys_from_spec() -> bool { true }
    open spec fn from_spec(v: ArrayOwned) -> Arr { Arr { elems: v.elems } }
}
impl From<ArrayOwned> for Arr { fn from(v: ArrayOwned) -> (r: Arr) { Arr { elems: v.elems } } }
// derive_more::From on Variable (`#[from(Array, Arc<Array>)] Array(Arc<Array>)`)
impl vstd::std_specs::convert::FromSpecImpl<ArrayOwned> for Variable {
    open spec fn obeys_from_spec() -> bool { true }
    open spec fn from_spec(v: ArrayOwned) -> Variable { Variable::Array(Arr { elems: v.elems }) }
}
impl From<ArrayOwned> for Variable { fn from(v: ArrayOwned) -> (r: Variable) { Variable::Array(Arr { elems: v.elems }) } }
impl Array {
    /// Array::new_repeat(value, len): `len` copies of `value` (std::iter::repeat_n(..).collect())
    #[verifier::external_body]
    pub fn new_repeat(value: Variable, len: usize) -> (r: ArrayOwned)
        ensures r.elems@.len() == len, forall|i: int| 0 <= i < len ==> r.elems@[i] == value
    { unimplemented!() }
    /// Array::new_with_type(element_type, elements): the given elements (the stored element type is not modelled)
    #[verifier::external_body]
    pub fn new_with_type(element_type: Type, elements: Arc<[Variable]>) -> (r: ArrayOwned)
        ensures r.elems@ == elements@
    { unimplemented!() }
    #[verifier::external_body]
    pub fn concat(array1: Arr, array2: Arr) -> (r: Arr)
        ensures r.elems@ == array1.elems@ + array2.elems@
    { unimplemented!() }
}

impl Clone for Variable {
    /// derived Clone (Arc clones share the payload): the clone is the same value
    #[verifier::external_body]
    fn clone(&self) -> (r: Self) ensures r == *self { unimplemented!() }
}

// ----- model of std::sync::RwLock<Variable> as used by assign::exec / try_exec -----------------
/// content of the cell at the moment the write lock is taken (an uninterpreted function of the lock:
/// the heap is not modelled; what is proved is how the UPDATE VALUE is computed from that content)
pub uninterp spec fn cell(l: RwLockM) -> Variable;
pub open spec fn cell_content(v: Variable) -> Variable { cell(v->Mut_0.variable) }
impl RwLockM {
    /// RwLock::write — assumed: the lock is never poisoned (no holder panics: C02's business) and the
    /// guard dereferences to the current content
    #[verifier::external_body]
    pub fn write(&self) -> (r: Result<GuardM, ()>) ensures r is Ok && r->Ok_0.content == cell(*self) { unimplemented!() }
}
impl std::ops::Deref for GuardM {
    type Target = Variable;
    fn deref(&self) -> (r: &Variable) ensures *r == self.content { &self.content }
}
impl std::ops::DerefMut for GuardM {
    fn deref_mut(&mut self) -> (r: &mut Variable) ensures *r == old(self).content, final(self).content == *final(r) { &mut self.content }
}

// enum-as-inner accessors generated on Variable (assumed: Ok(payload) for the matching
// variant, Err(self) otherwise — that is what enum-as-inner 0.6 generates)
impl Variable {
    pub fn into_bool(self) -> (r: Result<bool, Variable>)
        ensures self is Bool ==> r == Ok::<bool, Variable>(self->Bool_0),
                !(self is Bool) ==> r == Err::<bool, Variable>(self)
    { match self { Variable::Bool(b) => Ok(b), o => Err(o) } }

    pub fn into_int(self) -> (r: Result<i64, Variable>)
        ensures self is Int ==> r == Ok::<i64, Variable>(self->Int_0),
                !(self is Int) ==> r == Err::<i64, Variable>(self)
    { match self { Variable::Int(b) => Ok(b), o => Err(o) } }

    pub fn into_tuple(self) -> (r: Result<Tup, Variable>)
        ensures self is Tuple ==> r == Ok::<Tup, Variable>(self->Tuple_0),
                !(self is Tuple) ==> r == Err::<Tup, Variable>(self)
    { match self { Variable::Tuple(b) => Ok(b), o => Err(o) } }

    pub fn into_mut(self) -> (r: Result<MutV, Variable>)
        ensures self is Mut ==> r == Ok::<MutV, Variable>(self->Mut_0),
                !(self is Mut) ==> r == Err::<MutV, Variable>(self)
    { match self { Variable::Mut(b) => Ok(b), o => Err(o) } }

    pub fn into_string(self) -> (r: Result<Str, Variable>)
        ensures self is String ==> r == Ok::<Str, Variable>(self->String_0),
                !(self is String) ==> r == Err::<Str, Variable>(self)
    { match self { Variable::String(b) => Ok(b), o => Err(o) } }

    pub fn into_struct(self) -> (r: Result<StructV, Variable>)
        ensures self is Struct ==> r == Ok::<StructV, Variable>(self->Struct_0),
                !(self is Struct) ==> r == Err::<StructV, Variable>(self)
    { match self { Variable::Struct(b) => Ok(b), o => Err(o) } }

    pub fn into_function(self) -> (r: Result<FunV, Variable>)
        ensures self is Function ==> r == Ok::<FunV, Variable>(self->Function_0),
                !(self is Function) ==> r == Err::<FunV, Variable>(self)
    { match self { Variable::Function(b) => Ok(b), o => Err(o) } }
}

//@TYPES


// ----- (b) opaque stand-ins for repo types the verified functions only pass around -------
// `Type` itself is copied from src/variable/type.rs (see //@TYPES); the union / struct / function types it refers to are opaque
pub struct FunctionType { pub id: Ghost<int> }         // src/variable/function_type.rs
pub struct MultiType { pub id: Ghost<int> }            // src/variable/multi_type.rs (HashSet-based unions: outside Verus)
pub struct StructType { pub id: Ghost<int> }           // src/variable/struct_type.rs (HashMap-based)
pub struct Params { pub id: Ghost<int> }
//@BEGIN opaque_function_kinds
pub struct AnonymousFunction { pub id: Ghost<int> }
pub struct FunctionDeclaration { pub id: Ghost<int> }
//@END opaque_function_kinds
//@BEGIN opaque_reduce
pub struct Reduce { pub id: Ghost<int> }
//@END opaque_reduce
pub struct StructIns { pub id: Ghost<int> }            // instruction::struct::Struct
//@BEGIN opaque_typefilter
pub struct TypeFilter { pub id: Ghost<int> }
//@END opaque_typefilter
pub struct NativeFn { pub id: Ghost<int> }              // fn(&mut Interpreter) -> Result<Variable, ExecError> (fn pointers: outside Verus)
pub struct Name { pub id: Ghost<int> }                 // Arc<str> used as an identifier

/// the characters of an identifier (Arc<str> used as a field name / variable name)
pub uninterp spec fn name_chars(n: Name) -> Seq<char>;
impl StructV {
    /// HashMap::get through the Arc: the value stored under the field name, if any
    #[verifier::external_body]
    pub fn get(&self, k: &Name) -> (r: Option<&Variable>)
        ensures self.map.fields@.dom().contains(name_chars(*k)) ==> r == Some(&self.map.fields@[name_chars(*k)]),
                !self.map.fields@.dom().contains(name_chars(*k)) ==> r is None
    { unimplemented!() }
}
pub uninterp spec fn spec_as_type(v: Variable) -> Type;
pub uninterp spec fn spec_matches(a: Type, b: Type) -> bool;
impl Variable {
    /// Typed::as_type — not verified (match_any!, HashMap)
    #[verifier::external_body]
    pub fn as_type(&self) -> (r: Type) ensures r == spec_as_type(*self) { unimplemented!() }
}
// derived PartialEq on Type (structural; the opaque member types compare by their abstract identity)
impl vstd::std_specs::cmp::PartialEqSpecImpl for Type {
    open spec fn obeys_eq_spec() -> bool { true }
    open spec fn eq_spec(&self, other: &Type) -> bool { *self == *other }
}
impl PartialEq for Type { #[verifier::external_body] fn eq(&self, other: &Type) -> (r: bool) { unimplemented!() } }
/// static type the checker computes for an instruction (ReturnType::return_type: match_any!, HashSet unions — not verified)
pub uninterp spec fn spec_return_type(i: Instruction) -> Type;
impl Instruction {
    #[verifier::external_body]
    pub fn return_type(&self) -> (r: Type) ensures r == spec_return_type(*self) { unimplemented!() }
}
impl InstructionWithStr {
    #[verifier::external_body]
    pub fn return_type(&self) -> (r: Type) ensures r == spec_return_type(self.instruction) { unimplemented!() }
}
impl Type {
    /// Type::matches — not verified (see C10 in DESIGN)
    #[verifier::external_body]
    pub fn matches(&self, other: &Type) -> (r: bool) ensures r == spec_matches(*self, *other) { unimplemented!() }
    #[verifier::external_body]
    pub fn clone(&self) -> (r: Type) ensures r == *self { unimplemented!() }
}
impl Name {
    #[verifier::external_body]
    pub fn clone(&self) -> (r: Name) ensures r == *self { unimplemented!() }
}

// ----- abstract machine ---------------------------------------------------------------
// The interpreter state (variable layers + everything reachable from them) is an abstract
// value `st`.  Executing an instruction is an uninterpreted function of (instruction, state)
// to (result, state'): this is the contract composite instructions are verified against —
// a caller is checked against the callee's contract, never its body.
pub struct Interpreter { pub st: Ghost<int> }

pub uninterp spec fn eval_res(i: Instruction, s: int) -> ExecResult;
pub uninterp spec fn eval_st(i: Instruction, s: int) -> int;
pub uninterp spec fn st_layer(s: int) -> int;                       // create_layer
pub uninterp spec fn st_insert(s: int, name: Name, v: Variable) -> int;

//@BEGIN instruction_exec_stub
impl Instruction {
    /// `impl Exec for Instruction`: eval_res / eval_st ARE, by definition, what this function returns and the state
    /// it leaves.  Its body (the match_any! dispatch to the per-kind `exec`) is proved in the unit instruction.exec,
    /// where this stub is left out.
    #[verifier::external_body]
    pub fn exec(&self, interpreter: &mut Interpreter) -> (r: ExecResult)
        ensures r == eval_res(*self, old(interpreter).st@),
                final(interpreter).st@ == eval_st(*self, old(interpreter).st@)
    { unimplemented!() }
}
//@END instruction_exec_stub

impl Interpreter {
    #[verifier::external_body]
    pub fn create_layer(&self) -> (r: Interpreter) ensures r.st@ == st_layer(self.st@) { unimplemented!() }
    #[verifier::external_body]
    pub fn insert(&mut self, name: Name, variable: Variable)
        ensures final(self).st@ == st_insert(old(self).st@, name, variable) { unimplemented!() }
}

/// sequential left-to-right evaluation of a statement list, stopping at the first Err —
/// the std contract of `iter().map(..).collect::<Result<_,_>>()` used by Interpreter::exec
pub open spec fn seq_res(ins: Seq<InstructionWithStr>, s: int, k: int, acc: Seq<Variable>) -> Result<Seq<Variable>, ExecStop>
    decreases ins.len() - k
{
    if k >= ins.len() || k < 0 { Ok(acc) }
    else {
        match eval_res(ins[k].instruction, s) {
            Err(e) => Err(e),
            Ok(v) => seq_res(ins, eval_st(ins[k].instruction, s), k + 1, acc.push(v)),
        }
    }
}
pub open spec fn seq_st(ins: Seq<InstructionWithStr>, s: int, k: int) -> int
    decreases ins.len() - k
{
    if k >= ins.len() || k < 0 { s }
    else {
        match eval_res(ins[k].instruction, s) {
            Err(e) => eval_st(ins[k].instruction, s),
            Ok(v) => seq_st(ins, eval_st(ins[k].instruction, s), k + 1),
        }
    }
}

impl Interpreter {
    /// Interpreter::exec — `instructions.iter().map(|i| i.exec(self)).collect()`; assumed to be the
    /// sequential left-to-right evaluation that stops at the first Err (std contract of
    /// Iterator::map + collect into Result)
    #[verifier::external_body]
    pub fn exec(&mut self, instructions: &[InstructionWithStr]) -> (r: Result<Tup, ExecStop>)
        ensures
            (match seq_res(instructions@, old(self).st@, 0, Seq::empty()) {
                Ok(vs) => r is Ok && r->Ok_0.elems@ == vs,
                Err(e) => r == Err::<Tup, ExecStop>(e),
            }),
            final(self).st@ == seq_st(instructions@, old(self).st@, 0),
    { unimplemented!() }
}
// `tuple[i]` on an Arc<[Variable]>: slice indexing (panics when out of range: a precondition)
impl vstd::std_specs::core::IndexSpecImpl<usize> for Tup {
    open spec fn index_req(&self, i: &usize) -> bool { *i < self.elems@.len() }
}
impl std::ops::Index<usize> for Tup {
    type Output = Variable;
    #[verifier::external_body]
    fn index(&self, i: usize) -> (r: &Variable) ensures *r == self.elems@[i as int] { unimplemented!() }
}
impl Tup {
    #[verifier::external_body]
    pub fn last(&self) -> (r: Option<&Variable>)
        ensures self.elems@.len() == 0 ==> r is None,
                self.elems@.len() > 0 ==> r == Some(&self.elems@[self.elems@.len() - 1])
    { unimplemented!() }
}

impl NativeFn {
    /// call through the `fn(&mut Interpreter) -> Result<Variable, ExecError>` pointer of Body::Native
    #[verifier::external_body]
    pub fn call(&self, interpreter: &mut Interpreter) -> (r: Result<Variable, ExecError>) { unimplemented!() }
}

// ----- equality on values: `==` in verbatim bodies resolves to PartialEq for Variable, which is
// proved separately by back end K (C19); here it is an uninterpreted relation -------------------
pub uninterp spec fn var_eq(a: Variable, b: Variable) -> bool;
impl vstd::std_specs::cmp::PartialEqSpecImpl for Variable {
    open spec fn obeys_eq_spec() -> bool { true }
    open spec fn eq_spec(&self, other: &Variable) -> bool { var_eq(*self, *other) }
}
impl PartialEq for Variable {
    #[verifier::external_body]
    fn eq(&self, other: &Variable) -> (r: bool) { unimplemented!() }
}

// ----- match: specification of "first arm, top to bottom, that covers the scrutinee" ---------
/// value arm: candidates are evaluated top to bottom until the first one equal to the scrutinee
pub open spec fn cand_res(c: Seq<InstructionWithStr>, v: Variable, s: int, k: int) -> Result<bool, ExecStop>
    decreases c.len() - k
{
    if k < 0 || k >= c.len() { Ok(false) }
    else {
        match eval_res(c[k].instruction, s) {
            Err(e) => Err(e),
            Ok(mv) => if var_eq(mv, v) { Ok(true) } else { cand_res(c, v, eval_st(c[k].instruction, s), k + 1) },
        }
    }
}
pub open spec fn cand_st(c: Seq<InstructionWithStr>, v: Variable, s: int, k: int) -> int
    decreases c.len() - k
{
    if k < 0 || k >= c.len() { s }
    else {
        match eval_res(c[k].instruction, s) {
            Err(e) => eval_st(c[k].instruction, s),
            Ok(mv) => if var_eq(mv, v) { eval_st(c[k].instruction, s) } else { cand_st(c, v, eval_st(c[k].instruction, s), k + 1) },
        }
    }
}
pub open spec fn arm_covers_res(arm: MatchArm, v: Variable, s: int) -> Result<bool, ExecStop> {
    match arm {
        MatchArm::Other(_) => Ok(true),
        MatchArm::Type { ident, var_type, instruction } => Ok(spec_matches(spec_as_type(v), var_type)),
        MatchArm::Value(c, _) => cand_res(c@, v, s, 0),
    }
}
pub open spec fn arm_covers_st(arm: MatchArm, v: Variable, s: int) -> int {
    match arm {
        MatchArm::Value(c, _) => cand_st(c@, v, s, 0),
        _ => s,
    }
}
pub open spec fn arm_exec_res(arm: MatchArm, v: Variable, s: int) -> ExecResult {
    match arm {
        MatchArm::Type { ident, var_type, instruction } => eval_res(instruction.instruction, st_insert(st_layer(s), ident, v)),
        MatchArm::Other(i) => eval_res(i.instruction, s),
        MatchArm::Value(_, i) => eval_res(i.instruction, s),
    }
}
pub open spec fn arm_exec_st(arm: MatchArm, v: Variable, s: int) -> int {
    match arm {
        MatchArm::Type { ident, var_type, instruction } => s,
        MatchArm::Other(i) => eval_st(i.instruction, s),
        MatchArm::Value(_, i) => eval_st(i.instruction, s),
    }
}
/// some arm at or after k covers v (or evaluating a candidate stops first): the checker's
/// `is_covering_type` guarantee, which is type-level and NOT proved here
pub open spec fn match_decided(arms: Seq<MatchArm>, v: Variable, s: int, k: int) -> bool
    decreases arms.len() - k
{
    if k < 0 || k >= arms.len() { false }
    else {
        match arm_covers_res(arms[k], v, s) {
            Err(e) => true,
            Ok(b) => b || match_decided(arms, v, arm_covers_st(arms[k], v, s), k + 1),
        }
    }
}
pub open spec fn match_res(arms: Seq<MatchArm>, v: Variable, s: int, k: int) -> ExecResult
    decreases arms.len() - k
{
    if k < 0 || k >= arms.len() { Ok(Variable::Void) }
    else {
        match arm_covers_res(arms[k], v, s) {
            Err(e) => Err(e),
            Ok(b) => if b { arm_exec_res(arms[k], v, arm_covers_st(arms[k], v, s)) }
                     else { match_res(arms, v, arm_covers_st(arms[k], v, s), k + 1) },
        }
    }
}
pub open spec fn match_st(arms: Seq<MatchArm>, v: Variable, s: int, k: int) -> int
    decreases arms.len() - k
{
    if k < 0 || k >= arms.len() { s }
    else {
        match arm_covers_res(arms[k], v, s) {
            Err(e) => arm_covers_st(arms[k], v, s),
            Ok(b) => if b { arm_exec_st(arms[k], v, arm_covers_st(arms[k], v, s)) }
                     else { match_st(arms, v, arm_covers_st(arms[k], v, s), k + 1) },
        }
    }
}

// ----- sequences: Arc<str> viewed as Seq<char>, Arc<Array> viewed as Seq<Variable> -----------
pub struct CharsIt { pub rest: Ghost<Seq<char>> }
pub struct CharStr { pub ch: Ghost<char> }             // result of char::to_string()
pub struct Ch { pub ch: Ghost<char> }                  // a `char` yielded by Chars
impl Str {
    /// str::chars — assumed to yield the Unicode scalar values of the string, in order
    #[verifier::external_body]
    pub fn chars(&self) -> (r: CharsIt) ensures r.rest@ == self.chars@ { unimplemented!() }
}
impl CharsIt {
    #[verifier::external_body]
    pub fn nth(&mut self, n: usize) -> (r: Option<Ch>)
        ensures n < old(self).rest@.len() ==> r is Some && r->Some_0.ch@ == old(self).rest@[n as int],
                n >= old(self).rest@.len() ==> r is None
    { unimplemented!() }
    #[verifier::external_body]
    pub fn count(self) -> (r: usize) ensures r == self.rest@.len() { unimplemented!() }
}
impl Ch {
    #[verifier::external_body]
    pub fn to_string(&self) -> (r: CharStr) ensures r.ch@ == self.ch@ { unimplemented!() }
}
impl vstd::std_specs::convert::FromSpecImpl<CharStr> for Variable {
    open spec fn obeys_from_spec() -> bool { true }
    open spec fn from_spec(v: CharStr) -> Variable { Variable::String(Str { chars: Ghost(seq![v.ch@]) }) }
}
impl From<CharStr> for Variable {
    #[verifier::external_body]
    fn from(v: CharStr) -> (r: Variable) { unimplemented!() }
}
impl Arr {
    /// <[Variable]>::get through Deref of Array
    #[verifier::external_body]
    pub fn get(&self, index: usize) -> (r: Option<&Variable>)
        ensures index < self.elems@.len() ==> r == Some(&self.elems@[index as int]),
                index >= self.elems@.len() ==> r is None
    { unimplemented!() }
    #[verifier::external_body]
    pub fn len(&self) -> (r: usize) ensures r == self.elems@.len() { unimplemented!() }
}
/// length of a sequence value: elements of an array, Unicode scalar values of a string
pub open spec fn spec_len(v: Variable) -> nat {
    match v {
        Variable::Array(a) => a.elems@.len(),
        Variable::String(s) => s.chars@.len(),
        _ => 0,
    }
}

// ----- abstract machine of the recreate (constant folding) pass -------------------------------
pub struct LocalVariables { pub st: Ghost<int>, pub interpreter: Box<Interpreter> }   // `interpreter: &Interpreter` in /repo (the embedding interpreter the program is parsed against)
pub uninterp spec fn rec_res(i: Instruction, s: int) -> Result<Instruction, ExecError>;
pub uninterp spec fn rec_st(i: Instruction, s: int) -> int;
pub uninterp spec fn lv_layer(s: int) -> int;
//@BEGIN instruction_recreate_stub
impl Instruction {
    /// `impl Recreate for Instruction`: rec_res / rec_st ARE what this function returns; its body (match_any!
    /// dispatch) is proved in the unit instruction.recreate, where this stub is left out.
    #[verifier::external_body]
    pub fn recreate(&self, local_variables: &mut LocalVariables) -> (r: Result<Instruction, ExecError>)
        ensures r == rec_res(*self, old(local_variables).st@),
                final(local_variables).st@ == rec_st(*self, old(local_variables).st@)
    { unimplemented!() }
}
//@END instruction_recreate_stub
// derive_more::From on Instruction for the Arc-wrapped kinds (assumed: wraps in Arc::new)
impl vstd::std_specs::convert::FromSpecImpl<BinOperation> for Instruction {
    open spec fn obeys_from_spec() -> bool { true }
    open spec fn from_spec(v: BinOperation) -> Instruction { Instruction::BinOperation(Arc::new(v)) }
}
impl From<BinOperation> for Instruction { fn from(v: BinOperation) -> (r: Instruction) { Instruction::BinOperation(Arc::new(v)) } }
impl vstd::std_specs::convert::FromSpecImpl<UnaryOperation> for Instruction {
    open spec fn obeys_from_spec() -> bool { true }
    open spec fn from_spec(v: UnaryOperation) -> Instruction { Instruction::UnaryOperation(Arc::new(v)) }
}
impl From<UnaryOperation> for Instruction { fn from(v: UnaryOperation) -> (r: Instruction) { Instruction::UnaryOperation(Arc::new(v)) } }
impl vstd::std_specs::convert::FromSpecImpl<IfElse> for Instruction {
    open spec fn obeys_from_spec() -> bool { true }
    open spec fn from_spec(v: IfElse) -> Instruction { Instruction::IfElse(Arc::new(v)) }
}
impl From<IfElse> for Instruction { fn from(v: IfElse) -> (r: Instruction) { Instruction::IfElse(Arc::new(v)) } }
impl vstd::std_specs::convert::FromSpecImpl<ArrayRepeat> for Instruction {
    open spec fn obeys_from_spec() -> bool { true }
    open spec fn from_spec(v: ArrayRepeat) -> Instruction { Instruction::ArrayRepeat(Arc::new(v)) }
}
impl From<ArrayRepeat> for Instruction { fn from(v: ArrayRepeat) -> (r: Instruction) { Instruction::ArrayRepeat(Arc::new(v)) } }
impl vstd::std_specs::convert::FromSpecImpl<Variable> for Instruction {
    open spec fn obeys_from_spec() -> bool { true }
    open spec fn from_spec(v: Variable) -> Instruction { Instruction::Variable(v) }
}
impl From<Variable> for Instruction { fn from(v: Variable) -> (r: Instruction) { Instruction::Variable(v) } }

// ----- recreate pass: environment operations and statement lists ---------------------------------
pub uninterp spec fn lv_insert(s: int, name: Name, v: LocalVariable) -> int;
pub uninterp spec fn lv_of_instruction(i: Instruction) -> LocalVariable;
impl LocalVariables {
    #[verifier::external_body]
    pub fn create_layer(&self) -> (r: LocalVariables) ensures r.st@ == lv_layer(self.st@) { unimplemented!() }
    #[verifier::external_body]
    pub fn insert(&mut self, name: Name, variable: LocalVariable)
        ensures final(self).st@ == lv_insert(old(self).st@, name, variable) { unimplemented!() }
}
// `impl From<&Instruction> for LocalVariable` (local_variable.rs) — not verified
impl vstd::std_specs::convert::FromSpecImpl<&Instruction> for LocalVariable {
    open spec fn obeys_from_spec() -> bool { true }
    open spec fn from_spec(v: &Instruction) -> LocalVariable { lv_of_instruction(*v) }
}
impl From<&Instruction> for LocalVariable {
    #[verifier::external_body]
    fn from(v: &Instruction) -> (r: LocalVariable) { unimplemented!() }
}
/// recreate_instructions: `iter().map(|iws| iws.recreate(lv)).collect()` — assumed left to right, stop at first Err
pub open spec fn rseq_res(ins: Seq<InstructionWithStr>, s: int, k: int, acc: Seq<Instruction>) -> Result<Seq<Instruction>, ExecError>
    decreases ins.len() - k
{
    if k >= ins.len() || k < 0 { Ok(acc) }
    else {
        match rec_res(ins[k].instruction, s) {
            Err(e) => Err(e),
            Ok(i) => rseq_res(ins, rec_st(ins[k].instruction, s), k + 1, acc.push(i)),
        }
    }
}
pub open spec fn rseq_st(ins: Seq<InstructionWithStr>, s: int, k: int) -> int
    decreases ins.len() - k
{
    if k >= ins.len() || k < 0 { s }
    else {
        match rec_res(ins[k].instruction, s) {
            Err(e) => rec_st(ins[k].instruction, s),
            Ok(i) => rseq_st(ins, rec_st(ins[k].instruction, s), k + 1),
        }
    }
}
#[verifier::external_body]
pub fn recreate_instructions(instructions: &[InstructionWithStr], local_variables: &mut LocalVariables)
    -> (r: Result<Arc<[InstructionWithStr]>, ExecError>)
    ensures
        (match rseq_res(instructions@, old(local_variables).st@, 0, Seq::empty()) {
            Ok(is) => r is Ok && r->Ok_0@.len() == is.len()
                      && (forall|i: int| 0 <= i < is.len() ==> r->Ok_0@[i].instruction == is[i] && r->Ok_0@[i].str == instructions@[i].str),
            Err(e) => r == Err::<Arc<[InstructionWithStr]>, ExecError>(e),
        }),
        final(local_variables).st@ == rseq_st(instructions@, old(local_variables).st@, 0),
{ unimplemented!() }
impl vstd::std_specs::convert::FromSpecImpl<Loop> for Instruction {
    open spec fn obeys_from_spec() -> bool { true }
    open spec fn from_spec(v: Loop) -> Instruction { Instruction::Loop(Arc::new(v)) }
}
impl From<Loop> for Instruction { fn from(v: Loop) -> (r: Instruction) { Instruction::Loop(Arc::new(v)) } }
impl vstd::std_specs::convert::FromSpecImpl<Block> for Instruction {
    open spec fn obeys_from_spec() -> bool { true }
    open spec fn from_spec(v: Block) -> Instruction { Instruction::Block(v) }
}
impl From<Block> for Instruction { fn from(v: Block) -> (r: Instruction) { Instruction::Block(v) } }
impl vstd::std_specs::convert::FromSpecImpl<Set> for Instruction {
    open spec fn obeys_from_spec() -> bool { true }
    open spec fn from_spec(v: Set) -> Instruction { Instruction::Set(Arc::new(v)) }
}
impl From<Set> for Instruction { fn from(v: Set) -> (r: Instruction) { Instruction::Set(Arc::new(v)) } }
impl vstd::std_specs::convert::FromSpecImpl<SetIfElse> for Instruction {
    open spec fn obeys_from_spec() -> bool { true }
    open spec fn from_spec(v: SetIfElse) -> Instruction { Instruction::SetIfElse(Arc::new(v)) }
}
impl From<SetIfElse> for Instruction { fn from(v: SetIfElse) -> (r: Instruction) { Instruction::SetIfElse(Arc::new(v)) } }

impl vstd::std_specs::convert::FromSpecImpl<TupleAccess> for Instruction {
    open spec fn obeys_from_spec() -> bool { true }
    open spec fn from_spec(v: TupleAccess) -> Instruction { Instruction::TupleAccess(Arc::new(v)) }
}
impl From<TupleAccess> for Instruction { fn from(v: TupleAccess) -> (r: Instruction) { Instruction::TupleAccess(Arc::new(v)) } }
impl vstd::std_specs::convert::FromSpecImpl<FieldAccess> for Instruction {
    open spec fn obeys_from_spec() -> bool { true }
    open spec fn from_spec(v: FieldAccess) -> Instruction { Instruction::FieldAccess(Arc::new(v)) }
}
impl From<FieldAccess> for Instruction { fn from(v: FieldAccess) -> (r: Instruction) { Instruction::FieldAccess(Arc::new(v)) } }
impl vstd::std_specs::convert::FromSpecImpl<MutIns> for Instruction {
    open spec fn obeys_from_spec() -> bool { true }
    open spec fn from_spec(v: MutIns) -> Instruction { Instruction::Mut(Arc::new(v)) }
}
impl From<MutIns> for Instruction { fn from(v: MutIns) -> (r: Instruction) { Instruction::Mut(Arc::new(v)) } }

// derived Clone on Instruction / InstructionWithStr / LocalVariable (Arc clones share the payload): the clone is the same value
impl Clone for Instruction {
    #[verifier::external_body]
    fn clone(&self) -> (r: Self) ensures r == *self { unimplemented!() }
}
impl Clone for InstructionWithStr {
    #[verifier::external_body]
    fn clone(&self) -> (r: Self) ensures r == *self { unimplemented!() }
}
impl Clone for LocalVariable {
    #[verifier::external_body]
    fn clone(&self) -> (r: Self) ensures r == *self { unimplemented!() }
}

//@MACHINE

} // verus!

// panic!/unreachable!/format! arguments in verbatim bodies need these (never executed):
impl std::fmt::Display for Variable { fn fmt(&self, _: &mut std::fmt::Formatter<'_>) -> std::fmt::Result { Ok(()) } }
impl std::fmt::Debug for Variable { fn fmt(&self, _: &mut std::fmt::Formatter<'_>) -> std::fmt::Result { Ok(()) } }
impl std::fmt::Display for Str { fn fmt(&self, _: &mut std::fmt::Formatter<'_>) -> std::fmt::Result { Ok(()) } }
impl std::fmt::Display for Type { fn fmt(&self, _: &mut std::fmt::Formatter<'_>) -> std::fmt::Result { Ok(()) } }
impl std::fmt::Display for Arr { fn fmt(&self, _: &mut std::fmt::Formatter<'_>) -> std::fmt::Result { Ok(()) } }
impl std::fmt::Display for Name { fn fmt(&self, _: &mut std::fmt::Formatter<'_>) -> std::fmt::Result { Ok(()) } }
fn main() {}
