// Purity contracts of the operator functions, used ONLY by the dispatch units
// (BinOperation::exec / recreate, UnaryOperation::exec / recreate).  Each says nothing more
// than "the result is a function of the arguments" (one uninterpreted function per operator
// module), which is what lets the dispatch proof tell the modules apart.  What each operator
// computes is proved in the operator's own unit (V) or harness (K).

pub mod add { use super::*;
    #[verifier::external_body]
    pub fn exec(lhs: Variable, rhs: Variable) -> (r: Variable) ensures r == op_add(lhs, rhs) { unimplemented!() }
    pub uninterp spec fn folded(lhs: Instruction, rhs: Instruction) -> Instruction;
    #[verifier::external_body]
    pub fn create_from_instructions(lhs: Instruction, rhs: Instruction) -> (r: Instruction) ensures r == folded(lhs, rhs) { unimplemented!() }
}

pub mod subtract { use super::*;
    #[verifier::external_body]
    pub fn exec(lhs: Variable, rhs: Variable) -> (r: Variable) ensures r == op_subtract(lhs, rhs) { unimplemented!() }
    pub uninterp spec fn folded(lhs: Instruction, rhs: Instruction) -> Instruction;
    #[verifier::external_body]
    pub fn create_from_instructions(lhs: Instruction, rhs: Instruction) -> (r: Instruction) ensures r == folded(lhs, rhs) { unimplemented!() }
}

pub mod multiply { use super::*;
    #[verifier::external_body]
    pub fn exec(lhs: Variable, rhs: Variable) -> (r: Variable) ensures r == op_multiply(lhs, rhs) { unimplemented!() }
    pub uninterp spec fn folded(lhs: Instruction, rhs: Instruction) -> Instruction;
    #[verifier::external_body]
    pub fn create_from_instructions(lhs: Instruction, rhs: Instruction) -> (r: Instruction) ensures r == folded(lhs, rhs) { unimplemented!() }
}

pub mod equal { use super::*;
    #[verifier::external_body]
    pub fn exec(lhs: Variable, rhs: Variable) -> (r: Variable) ensures r == op_equal(lhs, rhs) { unimplemented!() }
    pub uninterp spec fn folded(lhs: Instruction, rhs: Instruction) -> Instruction;
    #[verifier::external_body]
    pub fn create_from_instructions(lhs: Instruction, rhs: Instruction) -> (r: Instruction) ensures r == folded(lhs, rhs) { unimplemented!() }
}

pub mod not_equal { use super::*;
    #[verifier::external_body]
    pub fn exec(lhs: Variable, rhs: Variable) -> (r: Variable) ensures r == op_not_equal(lhs, rhs) { unimplemented!() }
    pub uninterp spec fn folded(lhs: Instruction, rhs: Instruction) -> Instruction;
    #[verifier::external_body]
    pub fn create_from_instructions(lhs: Instruction, rhs: Instruction) -> (r: Instruction) ensures r == folded(lhs, rhs) { unimplemented!() }
}

pub mod greater { use super::*;
    #[verifier::external_body]
    pub fn exec(lhs: Variable, rhs: Variable) -> (r: Variable) ensures r == op_greater(lhs, rhs) { unimplemented!() }
    pub uninterp spec fn folded(lhs: Instruction, rhs: Instruction) -> Instruction;
    #[verifier::external_body]
    pub fn create_from_instructions(lhs: Instruction, rhs: Instruction) -> (r: Instruction) ensures r == folded(lhs, rhs) { unimplemented!() }
}

pub mod greater_equal { use super::*;
    #[verifier::external_body]
    pub fn exec(lhs: Variable, rhs: Variable) -> (r: Variable) ensures r == op_greater_equal(lhs, rhs) { unimplemented!() }
    pub uninterp spec fn folded(lhs: Instruction, rhs: Instruction) -> Instruction;
    #[verifier::external_body]
    pub fn create_from_instructions(lhs: Instruction, rhs: Instruction) -> (r: Instruction) ensures r == folded(lhs, rhs) { unimplemented!() }
}

pub mod lower { use super::*;
    #[verifier::external_body]
    pub fn exec(lhs: Variable, rhs: Variable) -> (r: Variable) ensures r == op_lower(lhs, rhs) { unimplemented!() }
    pub uninterp spec fn folded(lhs: Instruction, rhs: Instruction) -> Instruction;
    #[verifier::external_body]
    pub fn create_from_instructions(lhs: Instruction, rhs: Instruction) -> (r: Instruction) ensures r == folded(lhs, rhs) { unimplemented!() }
}

pub mod lower_equal { use super::*;
    #[verifier::external_body]
    pub fn exec(lhs: Variable, rhs: Variable) -> (r: Variable) ensures r == op_lower_equal(lhs, rhs) { unimplemented!() }
    pub uninterp spec fn folded(lhs: Instruction, rhs: Instruction) -> Instruction;
    #[verifier::external_body]
    pub fn create_from_instructions(lhs: Instruction, rhs: Instruction) -> (r: Instruction) ensures r == folded(lhs, rhs) { unimplemented!() }
}

pub mod bitwise_and { use super::*;
    #[verifier::external_body]
    pub fn exec(lhs: Variable, rhs: Variable) -> (r: Variable) ensures r == op_bitwise_and(lhs, rhs) { unimplemented!() }
    pub uninterp spec fn folded(lhs: Instruction, rhs: Instruction) -> Instruction;
    #[verifier::external_body]
    pub fn create_from_instructions(lhs: Instruction, rhs: Instruction) -> (r: Instruction) ensures r == folded(lhs, rhs) { unimplemented!() }
}

pub mod bitwise_or { use super::*;
    #[verifier::external_body]
    pub fn exec(lhs: Variable, rhs: Variable) -> (r: Variable) ensures r == op_bitwise_or(lhs, rhs) { unimplemented!() }
    pub uninterp spec fn folded(lhs: Instruction, rhs: Instruction) -> Instruction;
    #[verifier::external_body]
    pub fn create_from_instructions(lhs: Instruction, rhs: Instruction) -> (r: Instruction) ensures r == folded(lhs, rhs) { unimplemented!() }
}

pub mod xor { use super::*;
    #[verifier::external_body]
    pub fn exec(lhs: Variable, rhs: Variable) -> (r: Variable) ensures r == op_xor(lhs, rhs) { unimplemented!() }
    pub uninterp spec fn folded(lhs: Instruction, rhs: Instruction) -> Instruction;
    #[verifier::external_body]
    pub fn create_from_instructions(lhs: Instruction, rhs: Instruction) -> (r: Instruction) ensures r == folded(lhs, rhs) { unimplemented!() }
}

pub mod divide { use super::*;
    #[verifier::external_body]
    pub fn exec(lhs: Variable, rhs: Variable) -> (r: Result<Variable, ExecError>) ensures r == op_divide(lhs, rhs) { unimplemented!() }
    pub uninterp spec fn folded(lhs: Instruction, rhs: Instruction) -> Result<Instruction, ExecError>;
    #[verifier::external_body]
    pub fn create_from_instructions(lhs: Instruction, rhs: Instruction) -> (r: Result<Instruction, ExecError>) ensures r == folded(lhs, rhs) { unimplemented!() }
}

pub mod modulo { use super::*;
    #[verifier::external_body]
    pub fn exec(lhs: Variable, rhs: Variable) -> (r: Result<Variable, ExecError>) ensures r == op_modulo(lhs, rhs) { unimplemented!() }
    pub uninterp spec fn folded(lhs: Instruction, rhs: Instruction) -> Result<Instruction, ExecError>;
    #[verifier::external_body]
    pub fn create_from_instructions(lhs: Instruction, rhs: Instruction) -> (r: Result<Instruction, ExecError>) ensures r == folded(lhs, rhs) { unimplemented!() }
}

pub mod pow { use super::*;
    #[verifier::external_body]
    pub fn exec(lhs: Variable, rhs: Variable) -> (r: Result<Variable, ExecError>) ensures r == op_pow(lhs, rhs) { unimplemented!() }
}

pub mod lshift { use super::*;
    #[verifier::external_body]
    pub fn exec(lhs: Variable, rhs: Variable) -> (r: Result<Variable, ExecError>) ensures r == op_lshift(lhs, rhs) { unimplemented!() }
    pub uninterp spec fn folded(lhs: Instruction, rhs: Instruction) -> Result<Instruction, ExecError>;
    #[verifier::external_body]
    pub fn create_from_instructions(lhs: Instruction, rhs: Instruction) -> (r: Result<Instruction, ExecError>) ensures r == folded(lhs, rhs) { unimplemented!() }
}

pub mod rshift { use super::*;
    #[verifier::external_body]
    pub fn exec(lhs: Variable, rhs: Variable) -> (r: Result<Variable, ExecError>) ensures r == op_rshift(lhs, rhs) { unimplemented!() }
    pub uninterp spec fn folded(lhs: Instruction, rhs: Instruction) -> Result<Instruction, ExecError>;
    #[verifier::external_body]
    pub fn create_from_instructions(lhs: Instruction, rhs: Instruction) -> (r: Result<Instruction, ExecError>) ensures r == folded(lhs, rhs) { unimplemented!() }
}

pub mod filter { use super::*;
    #[verifier::external_body]
    pub fn exec(lhs: Variable, rhs: Variable) -> (r: Result<Variable, ExecError>) ensures r == op_filter(lhs, rhs) { unimplemented!() }
}

pub mod map { use super::*;
    #[verifier::external_body]
    pub fn exec(lhs: Variable, rhs: Variable) -> (r: Result<Variable, ExecError>) ensures r == op_map(lhs, rhs) { unimplemented!() }
}

pub mod at { use super::*;
    #[verifier::external_body]
    pub fn exec(lhs: Variable, rhs: Variable) -> (r: Result<Variable, ExecError>) ensures r == op_at(lhs, rhs) { unimplemented!() }
    pub uninterp spec fn folded(lhs: Instruction, rhs: Instruction) -> Result<Instruction, ExecError>;
    #[verifier::external_body]
    pub fn create_from_instructions(lhs: Instruction, rhs: Instruction) -> (r: Result<Instruction, ExecError>) ensures r == folded(lhs, rhs) { unimplemented!() }
}

pub mod call { use super::*;
    #[verifier::external_body]
    pub fn exec(lhs: Variable, rhs: Variable) -> (r: Result<Variable, ExecError>) ensures r == op_call(lhs, rhs) { unimplemented!() }
}

pub mod partition { use super::*;
    #[verifier::external_body]
    pub fn exec(lhs: Variable, rhs: Variable) -> (r: Result<Variable, ExecError>) ensures r == op_partition(lhs, rhs) { unimplemented!() }
}

