// ---------------------------------------------------------------------------------------------------
// Tuple / array literals (C04: pre-evaluated construction; C07: elements left to right).  Semantic functions of
// Tuple::exec / Array::exec (units tuple.exec / array.exec prove the real bodies against seq_res / seq_st), their
// dispatch axioms, and two PROVED lemmas about statement lists (induction over the list).  Needs semantics.rs.
// ---------------------------------------------------------------------------------------------------
pub open spec fn tuple_res(t: TupleIns, s: int) -> ExecResult {
    match seq_res(t.elements@, s, 0, Seq::empty()) {
        Err(e) => Err(e),
        Ok(vs) => Ok(Variable::Tuple(Tup { elems: Ghost(vs) })),
    }
}
pub open spec fn tuple_st(t: TupleIns, s: int) -> int { seq_st(t.elements@, s, 0) }
pub open spec fn array_res(a: ArrayIns, s: int) -> ExecResult {
    match seq_res(a.instructions@, s, 0, Seq::empty()) {
        Err(e) => Err(e),
        Ok(vs) => Ok(Variable::Array(Arr { elems: Ghost(vs) })),
    }
}
pub open spec fn array_st(a: ArrayIns, s: int) -> int { seq_st(a.instructions@, s, 0) }

pub mod sem_axioms3 { use super::*;
// instruction.exec.dispatch_tuple + tuple.exec.elements_left_to_right_each_once (and the same for arrays), restated
#[verifier::external_body]
pub broadcast proof fn axiom_eval_tuple_res(t: TupleIns, s: int)
    ensures #[trigger] eval_res(Instruction::Tuple(t), s) == tuple_res(t, s),
{}
#[verifier::external_body]
pub broadcast proof fn axiom_eval_tuple_st(t: TupleIns, s: int)
    ensures #[trigger] eval_st(Instruction::Tuple(t), s) == tuple_st(t, s),
{}
#[verifier::external_body]
pub broadcast proof fn axiom_eval_array_res(a: Arc<ArrayIns>, s: int)
    ensures #[trigger] eval_res(Instruction::Array(a), s) == array_res(*a, s),
{}
#[verifier::external_body]
pub broadcast proof fn axiom_eval_array_st(a: Arc<ArrayIns>, s: int)
    ensures #[trigger] eval_st(Instruction::Array(a), s) == array_st(*a, s),
{}
pub broadcast group sem3 { axiom_eval_tuple_res, axiom_eval_tuple_st, axiom_eval_array_res, axiom_eval_array_st }
}

/// a list of constants evaluates to those constants and leaves the state alone (proved by induction)
pub proof fn lemma_seq_of_constants(ins: Seq<InstructionWithStr>, vals: Seq<Variable>, s: int, k: int, acc: Seq<Variable>)
    requires
        ins.len() == vals.len(), 0 <= k <= ins.len(),
        forall|j: int| 0 <= j < ins.len() ==> (#[trigger] ins[j]).instruction == Instruction::Variable(vals[j]),
    ensures
        seq_res(ins, s, k, acc) == Ok::<Seq<Variable>, ExecStop>(acc + vals.subrange(k, vals.len() as int)),
        seq_st(ins, s, k) == s,
    decreases ins.len() - k
{
    broadcast use sem_axioms::sem;
    if k < ins.len() {
        assert(ins[k].instruction == Instruction::Variable(vals[k]));
        lemma_seq_of_constants(ins, vals, s, k + 1, acc.push(vals[k]));
        assert(acc.push(vals[k]) + vals.subrange(k + 1, vals.len() as int) =~= acc + vals.subrange(k, vals.len() as int));
    } else {
        assert(acc + vals.subrange(k, vals.len() as int) =~= acc);
    }
}
/// two lists whose elements cannot be told apart pairwise cannot be told apart as lists (proved by induction)
pub proof fn lemma_seq_congruence(a: Seq<InstructionWithStr>, b: Seq<InstructionWithStr>, s: int, k: int, acc: Seq<Variable>)
    requires
        a.len() == b.len(), 0 <= k <= a.len(),
        forall|j: int, t: int| 0 <= j < a.len() ==> #[trigger] eval_res(a[j].instruction, t) == eval_res(b[j].instruction, t),
        forall|j: int, t: int| 0 <= j < a.len() ==> #[trigger] eval_st(a[j].instruction, t) == eval_st(b[j].instruction, t),
    ensures
        seq_res(a, s, k, acc) == seq_res(b, s, k, acc),
        seq_st(a, s, k) == seq_st(b, s, k),
    decreases a.len() - k
{
    if k < a.len() {
        assert(eval_res(a[k].instruction, s) == eval_res(b[k].instruction, s));
        assert(eval_st(a[k].instruction, s) == eval_st(b[k].instruction, s));
        match eval_res(a[k].instruction, s) {
            Err(e) => {},
            Ok(v) => { lemma_seq_congruence(a, b, eval_st(a[k].instruction, s), k + 1, acc.push(v)); },
        }
    }
}
// Vec<Variable> -> Arc<[Variable]> (Variable::Tuple payload) and Vec<Variable> -> Variable (an array of the elements)
impl vstd::std_specs::convert::FromSpecImpl<Vec<Variable>> for Tup {
    open spec fn obeys_from_spec() -> bool { true }
    open spec fn from_spec(v: Vec<Variable>) -> Tup { Tup { elems: Ghost(v@) } }
}
impl From<Vec<Variable>> for Tup {
    #[verifier::external_body]
    fn from(v: Vec<Variable>) -> (r: Tup) { unimplemented!() }
}
impl vstd::std_specs::convert::FromSpecImpl<Vec<Variable>> for Variable {
    open spec fn obeys_from_spec() -> bool { true }
    open spec fn from_spec(v: Vec<Variable>) -> Variable { Variable::Array(Arr { elems: Ghost(v@) }) }
}
impl From<Vec<Variable>> for Variable {
    #[verifier::external_body]
    fn from(v: Vec<Variable>) -> (r: Variable) { unimplemented!() }
}
impl vstd::std_specs::convert::FromSpecImpl<TupleIns> for Instruction {
    open spec fn obeys_from_spec() -> bool { true }
    open spec fn from_spec(v: TupleIns) -> Instruction { Instruction::Tuple(v) }
}
impl From<TupleIns> for Instruction { fn from(v: TupleIns) -> (r: Instruction) { Instruction::Tuple(v) } }
impl vstd::std_specs::convert::FromSpecImpl<ArrayIns> for Instruction {
    open spec fn obeys_from_spec() -> bool { true }
    open spec fn from_spec(v: ArrayIns) -> Instruction { Instruction::Array(Arc::new(v)) }
}
impl From<ArrayIns> for Instruction { fn from(v: ArrayIns) -> (r: Instruction) { Instruction::Array(Arc::new(v)) } }
/// the environment in which element j of a statement list is recreated (left to right)
pub open spec fn rstate(ins: Seq<InstructionWithStr>, s: int, j: int) -> int
    decreases j
{
    if j <= 0 { s } else { rec_st(ins[j - 1].instruction, rstate(ins, s, j - 1)) }
}
/// what recreate_instructions returns, element by element (proved by induction)
pub proof fn lemma_rseq_elements(ins: Seq<InstructionWithStr>, s: int, k: int, acc: Seq<Instruction>, is: Seq<Instruction>)
    requires
        0 <= k <= ins.len(), acc.len() == k,
        rseq_res(ins, rstate(ins, s, k), k, acc) == Ok::<Seq<Instruction>, ExecError>(is),
    ensures
        is.len() == ins.len(),
        forall|j: int| 0 <= j < k ==> is[j] == acc[j],
        forall|j: int| k <= j < ins.len() ==> rec_res(ins[j].instruction, rstate(ins, s, j)) == Ok::<Instruction, ExecError>(#[trigger] is[j]),
    decreases ins.len() - k
{
    if k < ins.len() {
        match rec_res(ins[k].instruction, rstate(ins, s, k)) {
            Err(e) => {},
            Ok(i) => {
                assert(rstate(ins, s, k + 1) == rec_st(ins[k].instruction, rstate(ins, s, k)));
                lemma_rseq_elements(ins, s, k + 1, acc.push(i), is);
                assert(is[k] == acc.push(i)[k]);
            },
        }
    }
}
/// INDUCTION STEP for statement lists: under the induction hypothesis for every element, the recreated list behaves
/// like the original one
pub proof fn lemma_recreated_list_behaves_alike(ins: Seq<InstructionWithStr>, ls: int, out: Seq<InstructionWithStr>, is: Seq<Instruction>, s: int)
    requires
        rseq_res(ins, ls, 0, Seq::empty()) == Ok::<Seq<Instruction>, ExecError>(is),
        out.len() == is.len(),
        forall|i: int| 0 <= i < is.len() ==> (#[trigger] out[i]).instruction == is[i],
    ensures
        seq_res(out, s, 0, Seq::empty()) == seq_res(ins, s, 0, Seq::empty()),
        seq_st(out, s, 0) == seq_st(ins, s, 0),
{
    broadcast use sem_axioms::sem;
    lemma_rseq_elements(ins, ls, 0, Seq::empty(), is);
    assert forall|j: int, t: int| 0 <= j < out.len() implies #[trigger] eval_res(out[j].instruction, t) == eval_res(ins[j].instruction, t) by {
        assert(rec_res(ins[j].instruction, rstate(ins, ls, j)) == Ok::<Instruction, ExecError>(is[j]));
        sem_axioms::axiom_recreate_ih_res(ins[j].instruction, rstate(ins, ls, j), t);
    }
    assert forall|j: int, t: int| 0 <= j < out.len() implies #[trigger] eval_st(out[j].instruction, t) == eval_st(ins[j].instruction, t) by {
        assert(rec_res(ins[j].instruction, rstate(ins, ls, j)) == Ok::<Instruction, ExecError>(is[j]));
        sem_axioms::axiom_recreate_ih_st(ins[j].instruction, rstate(ins, ls, j), t);
    }
    lemma_seq_congruence(out, ins, s, 0, Seq::empty());
}
