// ---------------------------------------------------------------------------------------------------
// Equality by content (C19): the structural definition the property states, and the assumed contracts of
// the std `==` implementations the real `impl PartialEq for Variable` / `impl PartialEq for Array` delegate to.
// Used ONLY by the units variable.eq and array.eq.
// ---------------------------------------------------------------------------------------------------
/// IEEE-754 equality of two doubles (NaN != NaN, +0.0 == -0.0): Rust's `==` on f64; proved bit-precisely on the real
/// crate by the K harness c19_float_eq, uninterpreted here
pub uninterp spec fn ieee_eq(a: f64, b: f64) -> bool;

/// element-wise equality of two sequences of values
pub open spec fn seq_struct_eq(a: Seq<Variable>, b: Seq<Variable>) -> bool
    decreases a, 0int
{
    a.len() == b.len() && forall|i: int| 0 <= i < a.len() ==> #[trigger] struct_eq(a[i], b[i])
}
/// field-wise equality of two structs: same field names, equal values
pub open spec fn map_struct_eq(a: Map<Seq<char>, Variable>, b: Map<Seq<char>, Variable>) -> bool
    decreases a, 0int
{
    a.dom() =~= b.dom() && forall|k: Seq<char>| a.dom().contains(k) ==> #[trigger] struct_eq(a[k], b[k])
}
/// EQUALITY BY CONTENT, as property C19 states it: bool, int, string and () by value, floats by IEEE equality,
/// arrays / tuples / structs element-wise, functions and mut cells by identity, different kinds unequal
pub open spec fn struct_eq(a: Variable, b: Variable) -> bool
    decreases a, 1int
{
    match (a, b) {
        (Variable::Bool(x), Variable::Bool(y)) => x == y,
        (Variable::Int(x), Variable::Int(y)) => x == y,
        (Variable::Float(x), Variable::Float(y)) => ieee_eq(x, y),
        (Variable::String(x), Variable::String(y)) => x.chars@ == y.chars@,
        (Variable::Array(x), Variable::Array(y)) => seq_struct_eq(x.elems@, y.elems@),
        (Variable::Tuple(x), Variable::Tuple(y)) => seq_struct_eq(x.elems@, y.elems@),
        (Variable::Struct(x), Variable::Struct(y)) => map_struct_eq(x.map.fields@, y.map.fields@),
        (Variable::Function(x), Variable::Function(y)) => x.id@ == y.id@,
        (Variable::Mut(x), Variable::Mut(y)) => x.id@ == y.id@,
        (Variable::Void, Variable::Void) => true,
        _ => false,
    }
}

// ----- assumed contracts of the `==` implementations Variable::eq delegates to --------------------------
// std: <[T] as PartialEq>::eq is "same length and element-wise T::eq"; Arc<T>::eq delegates to T::eq; here T::eq
// is Variable::eq itself on strictly smaller values - the induction hypothesis of the recursive function
impl vstd::std_specs::cmp::PartialEqSpecImpl for Tup {
    open spec fn obeys_eq_spec() -> bool { true }
    open spec fn eq_spec(&self, other: &Tup) -> bool { seq_struct_eq(self.elems@, other.elems@) }
}
impl PartialEq for Tup { #[verifier::external_body] fn eq(&self, other: &Tup) -> (r: bool) { unimplemented!() } }
// Arc<Array>::eq -> Array::eq, whose body is proved in the unit array.eq (independent of the stored element type)
impl vstd::std_specs::cmp::PartialEqSpecImpl for Arr {
    open spec fn obeys_eq_spec() -> bool { true }
    open spec fn eq_spec(&self, other: &Arr) -> bool { seq_struct_eq(self.elems@, other.elems@) }
}
impl PartialEq for Arr { #[verifier::external_body] fn eq(&self, other: &Arr) -> (r: bool) { unimplemented!() } }
// std: <str as PartialEq>::eq compares the bytes, i.e. the same sequence of Unicode scalar values
impl vstd::std_specs::cmp::PartialEqSpecImpl for Str {
    open spec fn obeys_eq_spec() -> bool { true }
    open spec fn eq_spec(&self, other: &Str) -> bool { self.chars@ == other.chars@ }
}
impl PartialEq for Str { #[verifier::external_body] fn eq(&self, other: &Str) -> (r: bool) { unimplemented!() } }
// std: <HashMap<K, V> as PartialEq>::eq is "same length and every key of self maps to an equal value in other"
impl vstd::std_specs::cmp::PartialEqSpecImpl for VarMap {
    open spec fn obeys_eq_spec() -> bool { true }
    open spec fn eq_spec(&self, other: &VarMap) -> bool { map_struct_eq(self.fields@, other.fields@) }
}
impl PartialEq for VarMap { #[verifier::external_body] fn eq(&self, other: &VarMap) -> (r: bool) { unimplemented!() } }
// `**value` on an `&Arc<VariableMap>`: the map itself
impl std::ops::Deref for StructV {
    type Target = VarMap;
    fn deref(&self) -> (r: &VarMap) ensures *r == self.map { &self.map }
}
// identity of the model types standing for Arc<Function> / Arc<Mut>: the ghost id
pub trait HasId { spec fn ident(&self) -> int; }
impl HasId for FunV { open spec fn ident(&self) -> int { self.id@ } }
impl HasId for MutV { open spec fn ident(&self) -> int { self.id@ } }
