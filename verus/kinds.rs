// ---------------------------------------------------------------------------------------------------
// Per-kind `exec` / `recreate` as seen by the dispatchers `impl Exec for Instruction` and
// `impl Recreate for Instruction`: one uninterpreted function pair per instruction kind (the result and
// the state are functions of (instruction, state) - nothing more is assumed here).  What each kind's
// `exec` computes is proved in the kind's own unit (binop.exec, ifelse.exec, ...).  Used ONLY by the
// units instruction.exec and instruction.recreate.
// ---------------------------------------------------------------------------------------------------

pub uninterp spec fn kind_anonymousfunction_res(k: AnonymousFunction, s: int) -> ExecResult;
pub uninterp spec fn kind_anonymousfunction_st(k: AnonymousFunction, s: int) -> int;
pub uninterp spec fn kind_anonymousfunction_rec(k: AnonymousFunction, s: int) -> Result<Instruction, ExecError>;
pub uninterp spec fn kind_anonymousfunction_rec_st(k: AnonymousFunction, s: int) -> int;
impl AnonymousFunction {
    #[verifier::external_body]
    pub fn exec(&self, interpreter: &mut Interpreter) -> (r: ExecResult)
        ensures r == kind_anonymousfunction_res(*self, old(interpreter).st@), final(interpreter).st@ == kind_anonymousfunction_st(*self, old(interpreter).st@)
    { unimplemented!() }
    #[verifier::external_body]
    pub fn recreate(&self, local_variables: &mut LocalVariables) -> (r: Result<Instruction, ExecError>)
        ensures r == kind_anonymousfunction_rec(*self, old(local_variables).st@), final(local_variables).st@ == kind_anonymousfunction_rec_st(*self, old(local_variables).st@)
    { unimplemented!() }
}

pub uninterp spec fn kind_array_res(k: ArrayIns, s: int) -> ExecResult;
pub uninterp spec fn kind_array_st(k: ArrayIns, s: int) -> int;
pub uninterp spec fn kind_array_rec(k: ArrayIns, s: int) -> Result<Instruction, ExecError>;
pub uninterp spec fn kind_array_rec_st(k: ArrayIns, s: int) -> int;
impl ArrayIns {
    #[verifier::external_body]
    pub fn exec(&self, interpreter: &mut Interpreter) -> (r: ExecResult)
        ensures r == kind_array_res(*self, old(interpreter).st@), final(interpreter).st@ == kind_array_st(*self, old(interpreter).st@)
    { unimplemented!() }
    #[verifier::external_body]
    pub fn recreate(&self, local_variables: &mut LocalVariables) -> (r: Result<Instruction, ExecError>)
        ensures r == kind_array_rec(*self, old(local_variables).st@), final(local_variables).st@ == kind_array_rec_st(*self, old(local_variables).st@)
    { unimplemented!() }
}

pub uninterp spec fn kind_arrayrepeat_res(k: ArrayRepeat, s: int) -> ExecResult;
pub uninterp spec fn kind_arrayrepeat_st(k: ArrayRepeat, s: int) -> int;
pub uninterp spec fn kind_arrayrepeat_rec(k: ArrayRepeat, s: int) -> Result<Instruction, ExecError>;
pub uninterp spec fn kind_arrayrepeat_rec_st(k: ArrayRepeat, s: int) -> int;
impl ArrayRepeat {
    #[verifier::external_body]
    pub fn exec(&self, interpreter: &mut Interpreter) -> (r: ExecResult)
        ensures r == kind_arrayrepeat_res(*self, old(interpreter).st@), final(interpreter).st@ == kind_arrayrepeat_st(*self, old(interpreter).st@)
    { unimplemented!() }
    #[verifier::external_body]
    pub fn recreate(&self, local_variables: &mut LocalVariables) -> (r: Result<Instruction, ExecError>)
        ensures r == kind_arrayrepeat_rec(*self, old(local_variables).st@), final(local_variables).st@ == kind_arrayrepeat_rec_st(*self, old(local_variables).st@)
    { unimplemented!() }
}

pub uninterp spec fn kind_block_res(k: Block, s: int) -> ExecResult;
pub uninterp spec fn kind_block_st(k: Block, s: int) -> int;
pub uninterp spec fn kind_block_rec(k: Block, s: int) -> Result<Instruction, ExecError>;
pub uninterp spec fn kind_block_rec_st(k: Block, s: int) -> int;
impl Block {
    #[verifier::external_body]
    pub fn exec(&self, interpreter: &mut Interpreter) -> (r: ExecResult)
        ensures r == kind_block_res(*self, old(interpreter).st@), final(interpreter).st@ == kind_block_st(*self, old(interpreter).st@)
    { unimplemented!() }
    #[verifier::external_body]
    pub fn recreate(&self, local_variables: &mut LocalVariables) -> (r: Result<Instruction, ExecError>)
        ensures r == kind_block_rec(*self, old(local_variables).st@), final(local_variables).st@ == kind_block_rec_st(*self, old(local_variables).st@)
    { unimplemented!() }
}

pub uninterp spec fn kind_destructtuple_res(k: DestructTuple, s: int) -> ExecResult;
pub uninterp spec fn kind_destructtuple_st(k: DestructTuple, s: int) -> int;
pub uninterp spec fn kind_destructtuple_rec(k: DestructTuple, s: int) -> Result<Instruction, ExecError>;
pub uninterp spec fn kind_destructtuple_rec_st(k: DestructTuple, s: int) -> int;
impl DestructTuple {
    #[verifier::external_body]
    pub fn exec(&self, interpreter: &mut Interpreter) -> (r: ExecResult)
        ensures r == kind_destructtuple_res(*self, old(interpreter).st@), final(interpreter).st@ == kind_destructtuple_st(*self, old(interpreter).st@)
    { unimplemented!() }
    #[verifier::external_body]
    pub fn recreate(&self, local_variables: &mut LocalVariables) -> (r: Result<Instruction, ExecError>)
        ensures r == kind_destructtuple_rec(*self, old(local_variables).st@), final(local_variables).st@ == kind_destructtuple_rec_st(*self, old(local_variables).st@)
    { unimplemented!() }
}

pub uninterp spec fn kind_tuple_res(k: TupleIns, s: int) -> ExecResult;
pub uninterp spec fn kind_tuple_st(k: TupleIns, s: int) -> int;
pub uninterp spec fn kind_tuple_rec(k: TupleIns, s: int) -> Result<Instruction, ExecError>;
pub uninterp spec fn kind_tuple_rec_st(k: TupleIns, s: int) -> int;
impl TupleIns {
    #[verifier::external_body]
    pub fn exec(&self, interpreter: &mut Interpreter) -> (r: ExecResult)
        ensures r == kind_tuple_res(*self, old(interpreter).st@), final(interpreter).st@ == kind_tuple_st(*self, old(interpreter).st@)
    { unimplemented!() }
    #[verifier::external_body]
    pub fn recreate(&self, local_variables: &mut LocalVariables) -> (r: Result<Instruction, ExecError>)
        ensures r == kind_tuple_rec(*self, old(local_variables).st@), final(local_variables).st@ == kind_tuple_rec_st(*self, old(local_variables).st@)
    { unimplemented!() }
}

pub uninterp spec fn kind_binoperation_res(k: BinOperation, s: int) -> ExecResult;
pub uninterp spec fn kind_binoperation_st(k: BinOperation, s: int) -> int;
pub uninterp spec fn kind_binoperation_rec(k: BinOperation, s: int) -> Result<Instruction, ExecError>;
pub uninterp spec fn kind_binoperation_rec_st(k: BinOperation, s: int) -> int;
impl BinOperation {
    #[verifier::external_body]
    pub fn exec(&self, interpreter: &mut Interpreter) -> (r: ExecResult)
        ensures r == kind_binoperation_res(*self, old(interpreter).st@), final(interpreter).st@ == kind_binoperation_st(*self, old(interpreter).st@)
    { unimplemented!() }
    #[verifier::external_body]
    pub fn recreate(&self, local_variables: &mut LocalVariables) -> (r: Result<Instruction, ExecError>)
        ensures r == kind_binoperation_rec(*self, old(local_variables).st@), final(local_variables).st@ == kind_binoperation_rec_st(*self, old(local_variables).st@)
    { unimplemented!() }
}

pub uninterp spec fn kind_fieldaccess_res(k: FieldAccess, s: int) -> ExecResult;
pub uninterp spec fn kind_fieldaccess_st(k: FieldAccess, s: int) -> int;
pub uninterp spec fn kind_fieldaccess_rec(k: FieldAccess, s: int) -> Result<Instruction, ExecError>;
pub uninterp spec fn kind_fieldaccess_rec_st(k: FieldAccess, s: int) -> int;
impl FieldAccess {
    #[verifier::external_body]
    pub fn exec(&self, interpreter: &mut Interpreter) -> (r: ExecResult)
        ensures r == kind_fieldaccess_res(*self, old(interpreter).st@), final(interpreter).st@ == kind_fieldaccess_st(*self, old(interpreter).st@)
    { unimplemented!() }
    #[verifier::external_body]
    pub fn recreate(&self, local_variables: &mut LocalVariables) -> (r: Result<Instruction, ExecError>)
        ensures r == kind_fieldaccess_rec(*self, old(local_variables).st@), final(local_variables).st@ == kind_fieldaccess_rec_st(*self, old(local_variables).st@)
    { unimplemented!() }
}

pub uninterp spec fn kind_functiondeclaration_res(k: FunctionDeclaration, s: int) -> ExecResult;
pub uninterp spec fn kind_functiondeclaration_st(k: FunctionDeclaration, s: int) -> int;
pub uninterp spec fn kind_functiondeclaration_rec(k: FunctionDeclaration, s: int) -> Result<Instruction, ExecError>;
pub uninterp spec fn kind_functiondeclaration_rec_st(k: FunctionDeclaration, s: int) -> int;
impl FunctionDeclaration {
    #[verifier::external_body]
    pub fn exec(&self, interpreter: &mut Interpreter) -> (r: ExecResult)
        ensures r == kind_functiondeclaration_res(*self, old(interpreter).st@), final(interpreter).st@ == kind_functiondeclaration_st(*self, old(interpreter).st@)
    { unimplemented!() }
    #[verifier::external_body]
    pub fn recreate(&self, local_variables: &mut LocalVariables) -> (r: Result<Instruction, ExecError>)
        ensures r == kind_functiondeclaration_rec(*self, old(local_variables).st@), final(local_variables).st@ == kind_functiondeclaration_rec_st(*self, old(local_variables).st@)
    { unimplemented!() }
}

pub uninterp spec fn kind_ifelse_res(k: IfElse, s: int) -> ExecResult;
pub uninterp spec fn kind_ifelse_st(k: IfElse, s: int) -> int;
pub uninterp spec fn kind_ifelse_rec(k: IfElse, s: int) -> Result<Instruction, ExecError>;
pub uninterp spec fn kind_ifelse_rec_st(k: IfElse, s: int) -> int;
impl IfElse {
    #[verifier::external_body]
    pub fn exec(&self, interpreter: &mut Interpreter) -> (r: ExecResult)
        ensures r == kind_ifelse_res(*self, old(interpreter).st@), final(interpreter).st@ == kind_ifelse_st(*self, old(interpreter).st@)
    { unimplemented!() }
    #[verifier::external_body]
    pub fn recreate(&self, local_variables: &mut LocalVariables) -> (r: Result<Instruction, ExecError>)
        ensures r == kind_ifelse_rec(*self, old(local_variables).st@), final(local_variables).st@ == kind_ifelse_rec_st(*self, old(local_variables).st@)
    { unimplemented!() }
}

pub uninterp spec fn kind_loop_res(k: Loop, s: int) -> ExecResult;
pub uninterp spec fn kind_loop_st(k: Loop, s: int) -> int;
pub uninterp spec fn kind_loop_rec(k: Loop, s: int) -> Result<Instruction, ExecError>;
pub uninterp spec fn kind_loop_rec_st(k: Loop, s: int) -> int;
impl Loop {
    #[verifier::external_body]
    pub fn exec(&self, interpreter: &mut Interpreter) -> (r: ExecResult)
        ensures r == kind_loop_res(*self, old(interpreter).st@), final(interpreter).st@ == kind_loop_st(*self, old(interpreter).st@)
    { unimplemented!() }
    #[verifier::external_body]
    pub fn recreate(&self, local_variables: &mut LocalVariables) -> (r: Result<Instruction, ExecError>)
        ensures r == kind_loop_rec(*self, old(local_variables).st@), final(local_variables).st@ == kind_loop_rec_st(*self, old(local_variables).st@)
    { unimplemented!() }
}

pub uninterp spec fn kind_match_res(k: Match, s: int) -> ExecResult;
pub uninterp spec fn kind_match_st(k: Match, s: int) -> int;
pub uninterp spec fn kind_match_rec(k: Match, s: int) -> Result<Instruction, ExecError>;
pub uninterp spec fn kind_match_rec_st(k: Match, s: int) -> int;
impl Match {
    #[verifier::external_body]
    pub fn exec(&self, interpreter: &mut Interpreter) -> (r: ExecResult)
        ensures r == kind_match_res(*self, old(interpreter).st@), final(interpreter).st@ == kind_match_st(*self, old(interpreter).st@)
    { unimplemented!() }
    #[verifier::external_body]
    pub fn recreate(&self, local_variables: &mut LocalVariables) -> (r: Result<Instruction, ExecError>)
        ensures r == kind_match_rec(*self, old(local_variables).st@), final(local_variables).st@ == kind_match_rec_st(*self, old(local_variables).st@)
    { unimplemented!() }
}

pub uninterp spec fn kind_mut_res(k: MutIns, s: int) -> ExecResult;
pub uninterp spec fn kind_mut_st(k: MutIns, s: int) -> int;
pub uninterp spec fn kind_mut_rec(k: MutIns, s: int) -> Result<Instruction, ExecError>;
pub uninterp spec fn kind_mut_rec_st(k: MutIns, s: int) -> int;
impl MutIns {
    #[verifier::external_body]
    pub fn exec(&self, interpreter: &mut Interpreter) -> (r: ExecResult)
        ensures r == kind_mut_res(*self, old(interpreter).st@), final(interpreter).st@ == kind_mut_st(*self, old(interpreter).st@)
    { unimplemented!() }
    #[verifier::external_body]
    pub fn recreate(&self, local_variables: &mut LocalVariables) -> (r: Result<Instruction, ExecError>)
        ensures r == kind_mut_rec(*self, old(local_variables).st@), final(local_variables).st@ == kind_mut_rec_st(*self, old(local_variables).st@)
    { unimplemented!() }
}

pub uninterp spec fn kind_reduce_res(k: Reduce, s: int) -> ExecResult;
pub uninterp spec fn kind_reduce_st(k: Reduce, s: int) -> int;
pub uninterp spec fn kind_reduce_rec(k: Reduce, s: int) -> Result<Instruction, ExecError>;
pub uninterp spec fn kind_reduce_rec_st(k: Reduce, s: int) -> int;
impl Reduce {
    #[verifier::external_body]
    pub fn exec(&self, interpreter: &mut Interpreter) -> (r: ExecResult)
        ensures r == kind_reduce_res(*self, old(interpreter).st@), final(interpreter).st@ == kind_reduce_st(*self, old(interpreter).st@)
    { unimplemented!() }
    #[verifier::external_body]
    pub fn recreate(&self, local_variables: &mut LocalVariables) -> (r: Result<Instruction, ExecError>)
        ensures r == kind_reduce_rec(*self, old(local_variables).st@), final(local_variables).st@ == kind_reduce_rec_st(*self, old(local_variables).st@)
    { unimplemented!() }
}

pub uninterp spec fn kind_set_res(k: Set, s: int) -> ExecResult;
pub uninterp spec fn kind_set_st(k: Set, s: int) -> int;
pub uninterp spec fn kind_set_rec(k: Set, s: int) -> Result<Instruction, ExecError>;
pub uninterp spec fn kind_set_rec_st(k: Set, s: int) -> int;
impl Set {
    #[verifier::external_body]
    pub fn exec(&self, interpreter: &mut Interpreter) -> (r: ExecResult)
        ensures r == kind_set_res(*self, old(interpreter).st@), final(interpreter).st@ == kind_set_st(*self, old(interpreter).st@)
    { unimplemented!() }
    #[verifier::external_body]
    pub fn recreate(&self, local_variables: &mut LocalVariables) -> (r: Result<Instruction, ExecError>)
        ensures r == kind_set_rec(*self, old(local_variables).st@), final(local_variables).st@ == kind_set_rec_st(*self, old(local_variables).st@)
    { unimplemented!() }
}

pub uninterp spec fn kind_setifelse_res(k: SetIfElse, s: int) -> ExecResult;
pub uninterp spec fn kind_setifelse_st(k: SetIfElse, s: int) -> int;
pub uninterp spec fn kind_setifelse_rec(k: SetIfElse, s: int) -> Result<Instruction, ExecError>;
pub uninterp spec fn kind_setifelse_rec_st(k: SetIfElse, s: int) -> int;
impl SetIfElse {
    #[verifier::external_body]
    pub fn exec(&self, interpreter: &mut Interpreter) -> (r: ExecResult)
        ensures r == kind_setifelse_res(*self, old(interpreter).st@), final(interpreter).st@ == kind_setifelse_st(*self, old(interpreter).st@)
    { unimplemented!() }
    #[verifier::external_body]
    pub fn recreate(&self, local_variables: &mut LocalVariables) -> (r: Result<Instruction, ExecError>)
        ensures r == kind_setifelse_rec(*self, old(local_variables).st@), final(local_variables).st@ == kind_setifelse_rec_st(*self, old(local_variables).st@)
    { unimplemented!() }
}

pub uninterp spec fn kind_slicing_res(k: Slicing, s: int) -> ExecResult;
pub uninterp spec fn kind_slicing_st(k: Slicing, s: int) -> int;
pub uninterp spec fn kind_slicing_rec(k: Slicing, s: int) -> Result<Instruction, ExecError>;
pub uninterp spec fn kind_slicing_rec_st(k: Slicing, s: int) -> int;
impl Slicing {
    #[verifier::external_body]
    pub fn exec(&self, interpreter: &mut Interpreter) -> (r: ExecResult)
        ensures r == kind_slicing_res(*self, old(interpreter).st@), final(interpreter).st@ == kind_slicing_st(*self, old(interpreter).st@)
    { unimplemented!() }
    #[verifier::external_body]
    pub fn recreate(&self, local_variables: &mut LocalVariables) -> (r: Result<Instruction, ExecError>)
        ensures r == kind_slicing_rec(*self, old(local_variables).st@), final(local_variables).st@ == kind_slicing_rec_st(*self, old(local_variables).st@)
    { unimplemented!() }
}

pub uninterp spec fn kind_struct_res(k: StructIns, s: int) -> ExecResult;
pub uninterp spec fn kind_struct_st(k: StructIns, s: int) -> int;
pub uninterp spec fn kind_struct_rec(k: StructIns, s: int) -> Result<Instruction, ExecError>;
pub uninterp spec fn kind_struct_rec_st(k: StructIns, s: int) -> int;
impl StructIns {
    #[verifier::external_body]
    pub fn exec(&self, interpreter: &mut Interpreter) -> (r: ExecResult)
        ensures r == kind_struct_res(*self, old(interpreter).st@), final(interpreter).st@ == kind_struct_st(*self, old(interpreter).st@)
    { unimplemented!() }
    #[verifier::external_body]
    pub fn recreate(&self, local_variables: &mut LocalVariables) -> (r: Result<Instruction, ExecError>)
        ensures r == kind_struct_rec(*self, old(local_variables).st@), final(local_variables).st@ == kind_struct_rec_st(*self, old(local_variables).st@)
    { unimplemented!() }
}

pub uninterp spec fn kind_typefilter_res(k: TypeFilter, s: int) -> ExecResult;
pub uninterp spec fn kind_typefilter_st(k: TypeFilter, s: int) -> int;
pub uninterp spec fn kind_typefilter_rec(k: TypeFilter, s: int) -> Result<Instruction, ExecError>;
pub uninterp spec fn kind_typefilter_rec_st(k: TypeFilter, s: int) -> int;
impl TypeFilter {
    #[verifier::external_body]
    pub fn exec(&self, interpreter: &mut Interpreter) -> (r: ExecResult)
        ensures r == kind_typefilter_res(*self, old(interpreter).st@), final(interpreter).st@ == kind_typefilter_st(*self, old(interpreter).st@)
    { unimplemented!() }
    #[verifier::external_body]
    pub fn recreate(&self, local_variables: &mut LocalVariables) -> (r: Result<Instruction, ExecError>)
        ensures r == kind_typefilter_rec(*self, old(local_variables).st@), final(local_variables).st@ == kind_typefilter_rec_st(*self, old(local_variables).st@)
    { unimplemented!() }
}

pub uninterp spec fn kind_unaryoperation_res(k: UnaryOperation, s: int) -> ExecResult;
pub uninterp spec fn kind_unaryoperation_st(k: UnaryOperation, s: int) -> int;
pub uninterp spec fn kind_unaryoperation_rec(k: UnaryOperation, s: int) -> Result<Instruction, ExecError>;
pub uninterp spec fn kind_unaryoperation_rec_st(k: UnaryOperation, s: int) -> int;
impl UnaryOperation {
    #[verifier::external_body]
    pub fn exec(&self, interpreter: &mut Interpreter) -> (r: ExecResult)
        ensures r == kind_unaryoperation_res(*self, old(interpreter).st@), final(interpreter).st@ == kind_unaryoperation_st(*self, old(interpreter).st@)
    { unimplemented!() }
    #[verifier::external_body]
    pub fn recreate(&self, local_variables: &mut LocalVariables) -> (r: Result<Instruction, ExecError>)
        ensures r == kind_unaryoperation_rec(*self, old(local_variables).st@), final(local_variables).st@ == kind_unaryoperation_rec_st(*self, old(local_variables).st@)
    { unimplemented!() }
}

pub uninterp spec fn kind_tupleaccess_res(k: TupleAccess, s: int) -> ExecResult;
pub uninterp spec fn kind_tupleaccess_st(k: TupleAccess, s: int) -> int;
pub uninterp spec fn kind_tupleaccess_rec(k: TupleAccess, s: int) -> Result<Instruction, ExecError>;
pub uninterp spec fn kind_tupleaccess_rec_st(k: TupleAccess, s: int) -> int;
impl TupleAccess {
    #[verifier::external_body]
    pub fn exec(&self, interpreter: &mut Interpreter) -> (r: ExecResult)
        ensures r == kind_tupleaccess_res(*self, old(interpreter).st@), final(interpreter).st@ == kind_tupleaccess_st(*self, old(interpreter).st@)
    { unimplemented!() }
    #[verifier::external_body]
    pub fn recreate(&self, local_variables: &mut LocalVariables) -> (r: Result<Instruction, ExecError>)
        ensures r == kind_tupleaccess_rec(*self, old(local_variables).st@), final(local_variables).st@ == kind_tupleaccess_rec_st(*self, old(local_variables).st@)
    { unimplemented!() }
}
// variable lookup through the layers of the interpreter (HashMap + recursion over lower layers: not verified)
pub uninterp spec fn st_lookup(s: int, name: Name) -> Option<Variable>;
impl Interpreter {
    #[verifier::external_body]
    pub fn get_variable(&self, name: &Name) -> (r: Option<&Variable>)
        ensures (match st_lookup(self.st@, *name) { Some(v) => r == Some(&v), None => r is None })
    { unimplemented!() }
}
// LocalVariables::get (HashMap lookup through the layers of the recreate environment: not verified)
pub uninterp spec fn lv_lookup(s: int, name: Name) -> Option<LocalVariable>;
impl LocalVariables {
    #[verifier::external_body]
    pub fn get(&self, name: &Name) -> (r: Option<&LocalVariable>)
        ensures (match lv_lookup(self.st@, *name) { Some(v) => r == Some(&v), None => r is None })
    { unimplemented!() }
}
// std: Option::map_or_else calls `default` on None and `f` on Some(x)
pub assume_specification<T, U, D: FnOnce() -> U, F: FnOnce(T) -> U>[ Option::<T>::map_or_else ](o: Option<T>, default: D, f: F) -> (r: U)
    requires
        o is None ==> call_requires(default, ()),
        o is Some ==> call_requires(f, (o->Some_0,)),
    ensures
        o is None ==> call_ensures(default, (), r),
        o is Some ==> call_ensures(f, (o->Some_0,), r);
