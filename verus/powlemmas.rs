// Lemmas for exponentiation by squaring modulo 2^64 (proved here by Verus, not assumed).
pub open spec fn m64() -> int { 0x1_0000_0000_0000_0000 }

/// wrap64 is congruent to its argument and lands in the i64 window
pub proof fn lemma_wrap_mod(x: int)
    ensures wrap64(x) % m64() == x % m64(), -0x8000_0000_0000_0000 <= wrap64(x) < 0x8000_0000_0000_0000,
{
    let m = x % m64();
    vstd::arithmetic::div_mod::lemma_mod_twice(x, m64());
    if m >= 0x8000_0000_0000_0000 {
        vstd::arithmetic::div_mod::lemma_mod_sub_multiples_vanish(m, m64());
    }
}
pub proof fn lemma_mod_is_zero_window(d: int)
    requires -m64() < d < m64(), d % m64() == 0,
    ensures d == 0,
{
    if d > 0 { vstd::arithmetic::div_mod::lemma_small_mod(d as nat, m64() as nat); }
    else if d < 0 {
        vstd::arithmetic::div_mod::lemma_mod_add_multiples_vanish(d, m64());
        vstd::arithmetic::div_mod::lemma_small_mod((d + m64()) as nat, m64() as nat);
    }
}
/// the only value of the i64 window congruent to x is wrap64(x)
pub proof fn lemma_wrap_unique(r: int, x: int)
    requires -0x8000_0000_0000_0000 <= r < 0x8000_0000_0000_0000, r % m64() == x % m64(),
    ensures r == wrap64(x),
{
    lemma_wrap_mod(x);
    let w = wrap64(x);
    vstd::arithmetic::div_mod::lemma_mod_equivalence(r, w, m64());
    assert((r - w) % m64() == 0);
    if r - w != 0 { lemma_mod_is_zero_window(r - w); }
}
/// one step of exponentiation by squaring, modulo 2^64
pub proof fn lemma_pow_step(result: int, base: int, exp: nat, result2: int, base2: int)
    requires
        exp > 0,
        base2 % m64() == (base * base) % m64(),
        result2 % m64() == (if exp % 2 == 1 { result * base } else { result }) % m64(),
    ensures
        (result2 * pow(base2, exp / 2)) % m64() == (result * pow(base, exp)) % m64(),
{
    let k = exp / 2;
    vstd::arithmetic::power::lemma_pow_mod_noop(base2, k, m64());
    vstd::arithmetic::power::lemma_pow_mod_noop(base * base, k, m64());
    assert(pow(base2, k) % m64() == pow(base * base, k) % m64());
    vstd::arithmetic::power::lemma_pow_distributes(base, base, k);
    vstd::arithmetic::power::lemma_pow_adds(base, k, k);
    assert(pow(base * base, k) == pow(base, k + k));
    let r = if exp % 2 == 1 { result * base } else { result };
    vstd::arithmetic::div_mod::lemma_mul_mod_noop(result2, pow(base2, k), m64());
    vstd::arithmetic::div_mod::lemma_mul_mod_noop(r, pow(base, k + k), m64());
    assert((result2 * pow(base2, k)) % m64() == (r * pow(base, k + k)) % m64());
    if exp % 2 == 1 {
        assert(exp == k + k + 1);
        vstd::arithmetic::power::lemma_pow_adds(base, 1, k + k);
        vstd::arithmetic::power::lemma_pow1(base);
        assert(pow(base, exp) == base * pow(base, k + k));
        vstd::arithmetic::mul::lemma_mul_is_associative(result, base, pow(base, k + k));
    } else {
        assert(exp == k + k);
    }
}
