// ---------------------------------------------------------------------------------------------------
// Semantic functions of the composite instructions (needs opspecs.rs).  `binop_res/binop_st` is the
// contract of BinOperation::exec written as ONE function of (instruction, state); the unit binop.exec
// proves the real body against it.  The "dispatch axioms" below say that executing
// `Instruction::Variable(v)` yields v and that executing `Instruction::BinOperation(b)` is
// BinOperation::exec — i.e. what the match_any! arms of `impl Exec for Instruction` do.  They are no
// longer trusted by inspection: the unit instruction.exec proves the real dispatcher body
// (instruction.exec.constant_yields_itself, instruction.exec.dispatch_binoperation / _ifelse /
// _unaryoperation) and binop.exec / ifelse.exec / unop.exec prove the per-kind bodies equal to the semantic
// functions; the axioms restate the composition of those two proved facts over eval_res / eval_st (which are,
// by definition, what Instruction::exec returns).  With them the folding functions get the property-level
// postcondition "the instruction returned evaluates, in every state, exactly like the unfolded operation".
// ---------------------------------------------------------------------------------------------------
pub open spec fn lift(x: Result<Variable, ExecError>) -> ExecResult {
    match x { Ok(v) => Ok(v), Err(e) => Err(ExecStop::Error(e)) }
}
/// what the operator `op` yields on operand values (one uninterpreted function per operator module)
pub open spec fn binop_apply(op: BinOperator, l: Variable, r: Variable) -> Result<Variable, ExecError> {
    match op {
        BinOperator::Add => Ok(op_add(l, r)),
        BinOperator::Subtract => Ok(op_subtract(l, r)),
        BinOperator::Multiply => Ok(op_multiply(l, r)),
        BinOperator::Divide => op_divide(l, r),
        BinOperator::Modulo => op_modulo(l, r),
        BinOperator::Pow => op_pow(l, r),
        BinOperator::Equal => Ok(op_equal(l, r)),
        BinOperator::NotEqual => Ok(op_not_equal(l, r)),
        BinOperator::Greater => Ok(op_greater(l, r)),
        BinOperator::GreaterOrEqual => Ok(op_greater_equal(l, r)),
        BinOperator::Lower => Ok(op_lower(l, r)),
        BinOperator::LowerOrEqual => Ok(op_lower_equal(l, r)),
        BinOperator::BitwiseAnd => Ok(op_bitwise_and(l, r)),
        BinOperator::BitwiseOr => Ok(op_bitwise_or(l, r)),
        BinOperator::Xor => Ok(op_xor(l, r)),
        BinOperator::LShift => op_lshift(l, r),
        BinOperator::RShift => op_rshift(l, r),
        BinOperator::Filter => op_filter(l, r),
        BinOperator::Map => op_map(l, r),
        BinOperator::At => op_at(l, r),
        BinOperator::FunctionCall => op_call(l, r),
        BinOperator::Partition => op_partition(l, r),
        _ => Ok(Variable::Void),   // And / Or (handled before) and the assignments (not folded; see binop.exec.compound_*)
    }
}
pub open spec fn is_plain_binop(op: BinOperator) -> bool {
    !(op is And) && !(op is Or) && !(op is Assign) && !(op is AssignAdd) && !(op is AssignSubtract)
    && !(op is AssignMultiply) && !(op is AssignDivide) && !(op is AssignModulo) && !(op is AssignLShift)
    && !(op is AssignRShift) && !(op is AssignBitwiseAnd) && !(op is AssignBitwiseOr) && !(op is AssignXor)
    && !(op is AssignPow)
}
pub open spec fn binop_res(b: BinOperation, s: int) -> ExecResult {
    let s1 = eval_st(b.lhs, s);
    match eval_res(b.lhs, s) {
        Err(e) => Err(e),
        Ok(l) =>
            if b.op is And { if l == Variable::Bool(false) { Ok(Variable::Bool(false)) } else { eval_res(b.rhs, s1) } }
            else if b.op is Or { if l == Variable::Bool(true) { Ok(Variable::Bool(true)) } else { eval_res(b.rhs, s1) } }
            else { match eval_res(b.rhs, s1) { Err(e) => Err(e), Ok(r) => lift(binop_apply(b.op, l, r)) } },
    }
}
pub open spec fn binop_st(b: BinOperation, s: int) -> int {
    let s1 = eval_st(b.lhs, s);
    match eval_res(b.lhs, s) {
        Err(e) => s1,
        Ok(l) =>
            if b.op is And { if l == Variable::Bool(false) { s1 } else { eval_st(b.rhs, s1) } }
            else if b.op is Or { if l == Variable::Bool(true) { s1 } else { eval_st(b.rhs, s1) } }
            else { eval_st(b.rhs, s1) },
    }
}
/// `got` is the outcome the semantic function prescribes (`want`).  One concession to a tool limit: when the
/// prescribed outcome is a run-time error raised by an operator, only "is an error" is demanded of `got`
/// (Verus does not follow the identity of an error through `?` with a From conversion; WHICH error it is, is
/// fixed by the operator's own contract: divide ⇒ ZeroDivision, …)
pub open spec fn refines(got: ExecResult, want: ExecResult) -> bool {
    got == want || (want is Err && want->Err_0 is Error && got is Err)
}
/// executing `i` in state s is what the semantic function of the (unfolded) operation `b` prescribes
pub open spec fn behaves_as_binop(i: Instruction, b: BinOperation, s: int) -> bool {
    refines(eval_res(i, s), binop_res(b, s)) && eval_st(i, s) == binop_st(b, s)
}
pub open spec fn unfolded(lhs: Instruction, rhs: Instruction, op: BinOperator) -> BinOperation {
    BinOperation { lhs, rhs, op }
}

/// a and b cannot be told apart by executing them, in any state
pub open spec fn same_behaviour(a: Instruction, b: Instruction) -> bool {
    forall|s: int| #[trigger] eval_res(a, s) == eval_res(b, s) && #[trigger] eval_st(a, s) == eval_st(b, s)
}
/// semantic function of `if`: the contract of IfElse::exec (unit ifelse.exec) as one function
pub open spec fn ifelse_res(x: IfElse, s: int) -> ExecResult {
    let s1 = eval_st(x.condition.instruction, s);
    match eval_res(x.condition.instruction, s) {
        Err(e) => Err(e),
        Ok(c) => if c == Variable::Bool(true) { eval_res(x.if_true.instruction, s1) } else { eval_res(x.if_false.instruction, s1) },
    }
}
pub open spec fn ifelse_st(x: IfElse, s: int) -> int {
    let s1 = eval_st(x.condition.instruction, s);
    match eval_res(x.condition.instruction, s) {
        Err(e) => s1,
        Ok(c) => if c == Variable::Bool(true) { eval_st(x.if_true.instruction, s1) } else { eval_st(x.if_false.instruction, s1) },
    }
}
/// semantic function of the two foldable unary operators
pub open spec fn unop_res(u: UnaryOperation, s: int) -> ExecResult {
    match eval_res(u.instruction, s) {
        Err(e) => Err(e),
        Ok(v) => if u.op is Not { Ok(op_not(v)) } else { Ok(op_unary_minus(v)) },
    }
}
pub open spec fn unop_st(u: UnaryOperation, s: int) -> int { eval_st(u.instruction, s) }

pub mod sem_axioms { use super::*;
// dispatch axioms (trusted: the match_any! arms of `impl Exec for Instruction`):
//   executing Instruction::Variable(v) yields v and leaves the state alone;
//   executing Instruction::BinOperation(b) is BinOperation::exec (whose body is proved against binop_res/binop_st)
#[verifier::external_body]
pub broadcast proof fn axiom_eval_variable_res(v: Variable, s: int)
    ensures #[trigger] eval_res(Instruction::Variable(v), s) == Ok::<Variable, ExecStop>(v),
{}
#[verifier::external_body]
pub broadcast proof fn axiom_eval_variable_st(v: Variable, s: int)
    ensures #[trigger] eval_st(Instruction::Variable(v), s) == s,
{}
#[verifier::external_body]
pub broadcast proof fn axiom_eval_binop_res(b: Arc<BinOperation>, s: int)
    requires is_plain_binop(b.op) || b.op is And || b.op is Or,   // compound assignments: binop.exec.compound_*, not binop_res
    ensures refines(#[trigger] eval_res(Instruction::BinOperation(b), s), binop_res(*b, s)),
{}
#[verifier::external_body]
pub broadcast proof fn axiom_eval_binop_st(b: Arc<BinOperation>, s: int)
    ensures #[trigger] eval_st(Instruction::BinOperation(b), s) == binop_st(*b, s),
{}
// consequences of proved units, restated over the spec functions: divide::exec / modulo::exec return the zero
// error for EVERY dividend (units divide.exec.total / modulo.exec.total) and op_divide / op_modulo ARE those
// functions (purity)
#[verifier::external_body]
pub broadcast proof fn lemma_divide_by_zero(l: Variable)
    ensures #[trigger] op_divide(l, Variable::Int(0)) == Err::<Variable, ExecError>(ExecError::ZeroDivision),
{}
#[verifier::external_body]
pub broadcast proof fn lemma_modulo_by_zero(l: Variable)
    ensures #[trigger] op_modulo(l, Variable::Int(0)) == Err::<Variable, ExecError>(ExecError::ZeroModulo),
{}
#[verifier::external_body]
pub broadcast proof fn axiom_eval_ifelse_res(x: Arc<IfElse>, s: int)
    ensures #[trigger] eval_res(Instruction::IfElse(x), s) == ifelse_res(*x, s),
{}
#[verifier::external_body]
pub broadcast proof fn axiom_eval_ifelse_st(x: Arc<IfElse>, s: int)
    ensures #[trigger] eval_st(Instruction::IfElse(x), s) == ifelse_st(*x, s),
{}
#[verifier::external_body]
pub broadcast proof fn axiom_eval_unop_res(u: Arc<UnaryOperation>, s: int)
    requires u.op is Not || u.op is UnaryMinus,
    ensures #[trigger] eval_res(Instruction::UnaryOperation(u), s) == unop_res(*u, s),
{}
#[verifier::external_body]
pub broadcast proof fn axiom_eval_unop_st(u: Arc<UnaryOperation>, s: int)
    requires u.op is Not || u.op is UnaryMinus,
    ensures #[trigger] eval_st(Instruction::UnaryOperation(u), s) == unop_st(*u, s),
{}
// shifts: K harnesses c08_lshift / c08_rshift prove on the real crate that an int shifted by an amount outside 0..=63
// errs (OverflowShift), for all 2^128 operand pairs; restated over the spec functions
#[verifier::external_body]
pub broadcast proof fn lemma_lshift_out_of_range(l: Variable, n: i64)
    requires l is Int, !(0 <= n <= 63),
    ensures #[trigger] op_lshift(l, Variable::Int(n)) == Err::<Variable, ExecError>(ExecError::OverflowShift),
{}
#[verifier::external_body]
pub broadcast proof fn lemma_rshift_out_of_range(l: Variable, n: i64)
    requires l is Int, !(0 <= n <= 63),
    ensures #[trigger] op_rshift(l, Variable::Int(n)) == Err::<Variable, ExecError>(ExecError::OverflowShift),
{}
// INDUCTION HYPOTHESIS of the folding theorem (C04), assumed for the sub-instructions of the instruction whose
// `recreate` is being verified: a recreated sub-instruction behaves like the original one.  Proving each kind's
// `recreate` under this hypothesis is the induction step; the induction itself (over the depth of the instruction
// tree) and the agreement between LocalVariables and the run-time Interpreter are not mechanised.
#[verifier::external_body]
pub broadcast proof fn axiom_recreate_ih_res(i: Instruction, ls: int, s: int)
    requires rec_res(i, ls) is Ok,
    ensures #[trigger] eval_res(rec_res(i, ls)->Ok_0, s) == eval_res(i, s),
{}
#[verifier::external_body]
pub broadcast proof fn axiom_recreate_ih_st(i: Instruction, ls: int, s: int)
    requires rec_res(i, ls) is Ok,
    ensures #[trigger] eval_st(rec_res(i, ls)->Ok_0, s) == eval_st(i, s),
{}
// the same hypothesis, instantiated from the ORIGINAL instruction's side
#[verifier::external_body]
pub broadcast proof fn axiom_recreate_ih_res2(i: Instruction, ls: int, s: int)
    requires rec_res(i, ls) is Ok,
    ensures #[trigger] eval_res(i, s) == eval_res((#[trigger] rec_res(i, ls))->Ok_0, s),
{}
#[verifier::external_body]
pub broadcast proof fn axiom_recreate_ih_st2(i: Instruction, ls: int, s: int)
    requires rec_res(i, ls) is Ok,
    ensures #[trigger] eval_st(i, s) == eval_st((#[trigger] rec_res(i, ls))->Ok_0, s),
{}
pub broadcast group sem {
    axiom_eval_variable_res, axiom_eval_variable_st, axiom_eval_binop_res, axiom_eval_binop_st,
    lemma_divide_by_zero, lemma_modulo_by_zero, axiom_eval_ifelse_res, axiom_eval_ifelse_st,
    axiom_eval_unop_res, axiom_eval_unop_st, lemma_lshift_out_of_range, lemma_rshift_out_of_range,
    axiom_recreate_ih_res, axiom_recreate_ih_st, axiom_recreate_ih_res2, axiom_recreate_ih_st2,
}
}
// ----- tuple access `t.N`: semantic function of TupleAccess::exec (unit tupleaccess.exec) and its dispatch axiom
// (instruction.exec.dispatch_tupleaccess + tupleaccess.exec.is_the_semantic_function, restated over eval_res / eval_st)
pub open spec fn tupleaccess_res(a: TupleAccess, s: int) -> ExecResult {
    match eval_res(a.tuple.instruction, s) {
        Err(e) => Err(e),
        Ok(v) => Ok(v->Tuple_0.elems@[a.index as int]),
    }
}
pub open spec fn tupleaccess_st(a: TupleAccess, s: int) -> int { eval_st(a.tuple.instruction, s) }
/// field access `s.f`
pub open spec fn fieldaccess_res(a: FieldAccess, s: int) -> ExecResult {
    match eval_res(a.var.instruction, s) {
        Err(e) => Err(e),
        Ok(v) => Ok(v->Struct_0.map.fields@[name_chars(a.ident)]),
    }
}
pub open spec fn fieldaccess_st(a: FieldAccess, s: int) -> int { eval_st(a.var.instruction, s) }
pub mod sem_axioms2 { use super::*;
#[verifier::external_body]
pub broadcast proof fn axiom_eval_tupleaccess_res(a: Arc<TupleAccess>, s: int)
    ensures #[trigger] eval_res(Instruction::TupleAccess(a), s) == tupleaccess_res(*a, s),
{}
#[verifier::external_body]
pub broadcast proof fn axiom_eval_tupleaccess_st(a: Arc<TupleAccess>, s: int)
    ensures #[trigger] eval_st(Instruction::TupleAccess(a), s) == tupleaccess_st(*a, s),
{}
#[verifier::external_body]
pub broadcast proof fn axiom_eval_fieldaccess_res(a: Arc<FieldAccess>, s: int)
    ensures #[trigger] eval_res(Instruction::FieldAccess(a), s) == fieldaccess_res(*a, s),
{}
#[verifier::external_body]
pub broadcast proof fn axiom_eval_fieldaccess_st(a: Arc<FieldAccess>, s: int)
    ensures #[trigger] eval_st(Instruction::FieldAccess(a), s) == fieldaccess_st(*a, s),
{}
pub broadcast group sem2 {
    axiom_eval_tupleaccess_res, axiom_eval_tupleaccess_st, axiom_eval_fieldaccess_res, axiom_eval_fieldaccess_st,
}
}
// ----- `[value; len]`: semantic function of ArrayRepeat::exec (unit arrayrepeat.exec) and its dispatch axiom
pub open spec fn arrayrepeat_res(a: ArrayRepeat, s: int) -> ExecResult {
    let s1 = eval_st(a.value.instruction, s);
    match eval_res(a.value.instruction, s) {
        Err(e) => Err(e),
        Ok(v) => match eval_res(a.len.instruction, s1) {
            Err(e) => Err(e),
            Ok(l) => if l->Int_0 < 0 { Err(ExecStop::Error(ExecError::NegativeLength)) }
                     else { Ok(Variable::Array(Arr { elems: Ghost(Seq::new(l->Int_0 as nat, |i: int| v)) })) },
        },
    }
}
pub open spec fn arrayrepeat_st(a: ArrayRepeat, s: int) -> int {
    let s1 = eval_st(a.value.instruction, s);
    match eval_res(a.value.instruction, s) { Err(e) => s1, Ok(v) => eval_st(a.len.instruction, s1) }
}
pub mod sem_axioms4 { use super::*;
#[verifier::external_body]
pub broadcast proof fn axiom_eval_arrayrepeat_res(a: Arc<ArrayRepeat>, s: int)
    ensures #[trigger] eval_res(Instruction::ArrayRepeat(a), s) == arrayrepeat_res(*a, s),
{}
#[verifier::external_body]
pub broadcast proof fn axiom_eval_arrayrepeat_st(a: Arc<ArrayRepeat>, s: int)
    ensures #[trigger] eval_st(Instruction::ArrayRepeat(a), s) == arrayrepeat_st(*a, s),
{}
pub broadcast group sem4 { axiom_eval_arrayrepeat_res, axiom_eval_arrayrepeat_st }
}
