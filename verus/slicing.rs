// ---------------------------------------------------------------------------------------------------
// Slicing (C09 / C07): model of the `slyce` dependency and of the helper Slicing::exec_index as seen by
// `impl Exec for Slicing`.  What `slyce::Slice::apply` selects (Python's slice semantics) is an ASSUMED
// contract on the dependency, checked bounded by the K harnesses c09_slyce_* on the real crate; here it is the
// uninterpreted function slyce_select.  What is PROVED is the repo's own plumbing: evaluation order of
// lhs / start / stop / step, which bound goes into which slot, bounds converted by to_bound, the result being a
// sequence of the same kind as the operand made of exactly the selected elements.
// ---------------------------------------------------------------------------------------------------
pub uninterp spec fn slyce_select<T>(s: Seq<T>, start: Option<isize>, end: Option<isize>, step: Option<isize>) -> Seq<T>;

/// Slicing::to_bound as a function (unit slicing.to_bound proves the real body equal to it)
pub open spec fn to_bound_spec(index: i64) -> isize {
    if index == i64::MIN { (-isize::MAX) as isize } else { index as isize }
}
/// evaluating an optional bound: absent -> None in the same state; present -> evaluated once, converted by to_bound
pub open spec fn bound_res(index: Option<InstructionWithStr>, s: int) -> Result<Option<isize>, ExecStop> {
    match index {
        None => Ok(None),
        Some(i) => match eval_res(i.instruction, s) {
            Err(e) => Err(e),
            Ok(v) => Ok(Some(to_bound_spec(v->Int_0))),
        },
    }
}
pub open spec fn bound_st(index: Option<InstructionWithStr>, s: int) -> int {
    match index { None => s, Some(i) => eval_st(i.instruction, s) }
}
pub open spec fn bound_is_int(index: Option<InstructionWithStr>, s: int) -> bool {
    match index { None => true, Some(i) => eval_res(i.instruction, s) is Ok ==> eval_res(i.instruction, s)->Ok_0 is Int }
}
impl Slicing {
    /// Slicing::exec_index - a closure capturing `&mut Interpreter` plus Option::map / transpose: outside Verus.
    /// Assumed (read off the body): evaluates the bound if present, unwraps the int (checker guarantee), applies
    /// Self::to_bound
    #[verifier::external_body]
    pub fn exec_index(index: &Option<InstructionWithStr>, interpreter: &mut Interpreter) -> (r: Result<Option<isize>, ExecStop>)
        requires bound_is_int(*index, old(interpreter).st@),
        ensures r == bound_res(*index, old(interpreter).st@),
                final(interpreter).st@ == bound_st(*index, old(interpreter).st@),
    { unimplemented!() }
}
pub mod slyce { use super::*;
    /// slyce::Index, viewed as the optional signed position it was converted from
    pub struct Index { pub of: Option<isize> }
    impl vstd::std_specs::convert::FromSpecImpl<Option<isize>> for Index {
        open spec fn obeys_from_spec() -> bool { true }
        open spec fn from_spec(v: Option<isize>) -> Index { Index { of: v } }
    }
    impl From<Option<isize>> for Index { fn from(v: Option<isize>) -> (r: Index) { Index { of: v } } }
    pub struct Slice { pub start: Index, pub end: Index, pub step: Option<isize> }
    /// the iterator slyce returns, viewed as the sequence of selected elements
    pub struct SelIt<T> { pub sel: Ghost<Seq<T>> }
    pub struct ClonedIt<T> { pub sel: Ghost<Seq<T>> }
    impl Slice {
        #[verifier::external_body]
        pub fn apply<T>(&self, arr: &[T]) -> (r: SelIt<T>)
            ensures r.sel@ == slyce_select(arr@, self.start.of, self.end.of, self.step)
        { unimplemented!() }
    }
    impl<T> SelIt<T> {
        /// Iterator::cloned - the same elements
        #[verifier::external_body]
        pub fn cloned(self) -> (r: ClonedIt<T>) ensures r.sel@ == self.sel@ { unimplemented!() }
    }
    impl<T> ClonedIt<T> {
        /// Iterator::collect - a container holding exactly the yielded elements, in order
        #[verifier::external_body]
        pub fn collect<B: FromSeq<T>>(self) -> (r: B) ensures r.seq_view() == self.sel@ { unimplemented!() }
    }
}
/// containers `collect()` builds in Slicing::exec, viewed as sequences
pub trait FromSeq<T> { spec fn seq_view(&self) -> Seq<T>; }
impl FromSeq<char> for String { open spec fn seq_view(&self) -> Seq<char> { spec_string_value(*self) } }
impl FromSeq<char> for Box<[char]> { open spec fn seq_view(&self) -> Seq<char> { self@ } }
impl FromSeq<Variable> for Arc<[Variable]> { open spec fn seq_view(&self) -> Seq<Variable> { self@ } }
impl CharsIt {
    /// str::chars().collect() - the Unicode scalar values, in order
    #[verifier::external_body]
    pub fn collect<B: FromSeq<char>>(self) -> (r: B) ensures r.seq_view() == self.rest@ { unimplemented!() }
}
impl Variable {
    pub fn into_array(self) -> (r: Result<Arr, Variable>)
        ensures self is Array ==> r == Ok::<Arr, Variable>(self->Array_0),
                !(self is Array) ==> r == Err::<Arr, Variable>(self)
    { match self { Variable::Array(b) => Ok(b), o => Err(o) } }
}
impl Arr {
    /// Arc<Array>::as_ref() followed by the deref coercion Array -> [Variable]: the elements
    #[verifier::external_body]
    pub fn as_ref(&self) -> (r: &[Variable]) ensures r@ == self.elems@ { unimplemented!() }
}
// From<Arc<[Variable]>> for Variable builds an array of the elements (Array::from computes the element type)
impl vstd::std_specs::convert::FromSpecImpl<Arc<[Variable]>> for Variable {
    open spec fn obeys_from_spec() -> bool { true }
    open spec fn from_spec(v: Arc<[Variable]>) -> Variable { Variable::Array(Arr { elems: Ghost(v@) }) }
}
impl From<Arc<[Variable]>> for Variable {
    #[verifier::external_body]
    fn from(v: Arc<[Variable]>) -> (r: Variable) { unimplemented!() }
}
