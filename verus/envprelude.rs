// Prelude of the units that prove the two ENVIRONMENT data structures themselves (src/interpreter.rs: Interpreter,
// src/instruction/local_variable.rs: LocalVariables): layered hash maps with a reference to the enclosing layer.
// (The main prelude models exactly these structures abstractly, so these units do not use it.)
#![allow(unused_imports)]
use vstd::prelude::*;
use vstd::std_specs::hash::*;
use std::collections::HashMap;
use std::sync::Arc;
verus! {
// std: Option::or_else (the closure is run only when the option is None)
pub assume_specification<T, F: FnOnce() -> Option<T>> [Option::<T>::or_else] (o: Option<T>, f: F) -> (r: Option<T>)
    requires o is None ==> call_requires(f, ()),
    ensures o is Some ==> r == o, o is None ==> call_ensures(f, (), r);
// std: Option::is_some_and (false for None; otherwise whatever the closure answers for the content)
pub assume_specification<T, F: FnOnce(T) -> bool> [Option::<T>::is_some_and] (o: Option<T>, f: F) -> (r: bool)
    requires o is Some ==> call_requires(f, (o->Some_0,)),
    ensures o is None ==> !r, o is Some ==> call_ensures(f, (o->Some_0,), r);
// std: Arc<str> keys hash and compare by content, the default hasher is a valid hasher (vstd's key model)
#[verifier::external_body]
pub broadcast proof fn axiom_arc_str_obeys_key_model()
    ensures #[trigger] obeys_key_model::<Arc<str>>() {}
pub broadcast group env_axioms { axiom_arc_str_obeys_key_model, vstd::std_specs::hash::group_hash_axioms }

// opaque stand-ins for what the environments only store
pub struct Variable { pub id: Ghost<int> }
pub struct Type { pub id: Ghost<int> }
pub struct Params { pub id: Ghost<int> }
impl Clone for Type { #[verifier::external_body] fn clone(&self) -> (r: Self) ensures r == *self { unimplemented!() } }

pub type VariableMap = HashMap<Arc<str>, Variable>;
pub type LocalVariableMap = HashMap<Arc<str>, LocalVariable>;
/// `impl From<Params> for LocalVariableMap` (src/function/param.rs: iterator chain, not verified)
pub uninterp spec fn lvm_of_params(p: Params) -> Map<Arc<str>, LocalVariable>;
#[verifier::external_body]
pub fn local_variable_map_from(params: Params) -> (r: LocalVariableMap)
    ensures r@ == lvm_of_params(params) { unimplemented!() }

/// the binding `name` has in ONE layer, if any
pub open spec fn layer_has<V>(m: Map<Arc<str>, V>, name: &str) -> bool { contains_borrowed_key(m, name) }
pub open spec fn layer_binds<V>(m: Map<Arc<str>, V>, name: &str, v: V) -> bool { maps_borrowed_key_to_value(m, name, v) }
//@UNIT_TYPES
} // verus!
fn main() {}
