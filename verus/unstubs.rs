// Purity contracts of the unary operator functions (see opstubs.rs for the rationale).
pub mod not { use super::*;
    #[verifier::external_body]
    pub fn exec(variable: Variable) -> (r: Variable) ensures r == op_not(variable) { unimplemented!() }
}
pub mod unary_minus { use super::*;
    #[verifier::external_body]
    pub fn exec(variable: Variable) -> (r: Variable) ensures r == op_unary_minus(variable) { unimplemented!() }
}
pub mod indirection { use super::*;
    #[verifier::external_body]
    pub fn exec(var: Variable) -> (r: Variable) ensures r == op_indirection(var) { unimplemented!() }
}
pub mod iter { use super::*;
    #[verifier::external_body]
    pub fn exec(var: Variable) -> (r: Variable) ensures r == op_iter(var) { unimplemented!() }
}
pub mod sum { use super::*;
    #[verifier::external_body]
    pub fn exec(var: Variable) -> (r: Result<Variable, ExecError>) ensures r == op_sum(var) { unimplemented!() }
}
pub mod product { use super::*;
    #[verifier::external_body]
    pub fn exec(var: Variable) -> (r: Result<Variable, ExecError>) ensures r == op_product(var) { unimplemented!() }
}
pub mod collect { use super::*;
    #[verifier::external_body]
    pub fn exec(var: Variable) -> (r: Result<Variable, ExecError>) { unimplemented!() }
}
impl FunV {
    /// Function::exec on the callee (its own unit proves what it does with its body)
    #[verifier::external_body]
    pub fn exec(&self, interpreter: &mut Interpreter) -> (r: Result<Variable, ExecError>) { unimplemented!() }
}
