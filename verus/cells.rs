// ---------------------------------------------------------------------------------------------------
// Mutable cells (C13): model of `variable::Mut { var_type, variable: RwLock<Variable> }` as used by
// instruction::mut::Mut::exec and prefix_op::indirection::exec.  Used ONLY by the units mut.exec and
// indirection.exec (assign::exec / try_exec use the RwLock model of the prelude).
// ---------------------------------------------------------------------------------------------------
/// std: RwLock::new(v) / RwLock::from(v) - a new lock holding v
pub uninterp spec fn new_lock(v: Variable) -> RwLockM;
#[verifier::external_body]
pub broadcast proof fn axiom_new_lock_holds_its_value(v: Variable)
    ensures #[trigger] cell(new_lock(v)) == v,
{}
impl vstd::std_specs::convert::FromSpecImpl<Variable> for RwLockM {
    open spec fn obeys_from_spec() -> bool { true }
    open spec fn from_spec(v: Variable) -> RwLockM { new_lock(v) }
}
impl From<Variable> for RwLockM {
    #[verifier::external_body]
    fn from(v: Variable) -> (r: RwLockM) { unimplemented!() }
}
pub mod variable { use super::*;
    // src/variable/mut.rs: pub struct Mut { pub var_type: Type, pub variable: RwLock<Variable> }
    pub struct Mut { pub var_type: Type, pub variable: RwLockM }
}
// derive_more::From on Variable (`#[from(Mut, Arc<Mut>)] Mut(Arc<Mut>)`): wraps the cell in a new Arc; the identity
// of the cell is the identity of its lock
impl vstd::std_specs::convert::FromSpecImpl<variable::Mut> for Variable {
    open spec fn obeys_from_spec() -> bool { true }
    open spec fn from_spec(m: variable::Mut) -> Variable { Variable::Mut(MutV { id: m.variable.id, variable: m.variable }) }
}
impl From<variable::Mut> for Variable {
    #[verifier::external_body]
    fn from(m: variable::Mut) -> (r: Variable) { unimplemented!() }
}
impl RwLockM {
    /// RwLock::read - assumed: never poisoned; the guard dereferences to the current content
    #[verifier::external_body]
    pub fn read(&self) -> (r: Result<GuardM, ()>) ensures r is Ok && r->Ok_0.content == cell(*self) { unimplemented!() }
}
