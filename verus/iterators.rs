// ----- iterator protocol (C11): an iterator is a function value `() -> (bool, T)`; pulling it is Function::exec on the
// CURRENT interpreter (collect::exec, Reduce::exec).  The effect of a pull flows through the abstract interpreter state,
// so "the k-th pull" is a function of the state the (k-1)-th pull left.
pub uninterp spec fn fun_exec_res(f: FunV, s: int) -> Result<Variable, ExecError>;
pub uninterp spec fn fun_exec_st(f: FunV, s: int) -> int;
/// Function::exec_with_args: runs the function in a fresh interpreter that knows only the arguments
pub uninterp spec fn fun_call_res(f: FunV, args: Seq<Variable>) -> Result<Variable, ExecError>;
impl FunV {
    /// Function::exec on the callee (unit function.exec proves what it does with its body)
    #[verifier::external_body]
    pub fn exec(&self, interpreter: &mut Interpreter) -> (r: Result<Variable, ExecError>)
        ensures r == fun_exec_res(*self, old(interpreter).st@),
                final(interpreter).st@ == fun_exec_st(*self, old(interpreter).st@)
    { unimplemented!() }
    #[verifier::external_body]
    pub fn exec_with_args(&self, args: &[Variable]) -> (r: Result<Variable, ExecError>)
        ensures r == fun_call_res(*self, args@)
    { unimplemented!() }
}
/// state in which pull number k (0-based) of iterator `it` happens, when the first pull happens in state s
pub open spec fn pull_st(it: FunV, s: int, k: nat) -> int decreases k {
    if k == 0 { s } else { fun_exec_st(it, pull_st(it, s, (k - 1) as nat)) }
}
pub open spec fn pull_res(it: FunV, s: int, k: nat) -> Result<Variable, ExecError> { fun_exec_res(it, pull_st(it, s, k)) }
/// pull k yields an element: it returned a tuple whose first component is not `false`
pub open spec fn yields(it: FunV, s: int, k: nat) -> bool {
    pull_res(it, s, k) is Ok && pull_res(it, s, k)->Ok_0 is Tuple
    && !var_eq(pull_res(it, s, k)->Ok_0->Tuple_0.elems@[0], Variable::Bool(false))
}
/// the element pull k yields
pub open spec fn elem(it: FunV, s: int, k: nat) -> Variable { pull_res(it, s, k)->Ok_0->Tuple_0.elems@[1] }
/// x1..xn: the elements of the first n pulls, in order
pub open spec fn elems(it: FunV, s: int, n: nat) -> Seq<Variable> decreases n {
    if n == 0 { Seq::empty() } else { elems(it, s, (n - 1) as nat).push(elem(it, s, (n - 1) as nat)) }
}
/// every tuple an iterator returns has its two components (the checker admits only `() -> (bool, T)` here)
pub open spec fn well_typed_iterator(it: FunV, s: int) -> bool {
    forall|k: nat| (#[trigger] pull_res(it, s, k)) is Ok && pull_res(it, s, k)->Ok_0 is Tuple
        ==> pull_res(it, s, k)->Ok_0->Tuple_0.elems@.len() >= 2
}
/// the left fold `f(...f(f(init, x1), x2)..., xn)`: accumulator after n elements (None: a call of f failed earlier)
pub open spec fn fold_acc(it: FunV, f: FunV, init: Variable, s: int, n: nat) -> Result<Variable, ExecError> decreases n {
    if n == 0 { Ok(init) } else {
        match fold_acc(it, f, init, s, (n - 1) as nat) {
            Err(e) => Err(e),
            Ok(acc) => fun_call_res(f, seq![acc, elem(it, s, (n - 1) as nat)]),
        }
    }
}
// Vec<Variable> -> Variable (impl From<Vec<Variable>> for Variable builds an Array of these elements)
impl vstd::std_specs::convert::FromSpecImpl<Vec<Variable>> for Variable {
    open spec fn obeys_from_spec() -> bool { true }
    open spec fn from_spec(v: Vec<Variable>) -> Variable { Variable::Array(Arr { elems: Ghost(v@) }) }
}
impl From<Vec<Variable>> for Variable {
    #[verifier::external_body]
    fn from(v: Vec<Variable>) -> (r: Variable) { unimplemented!() }
}
