// ----- iterator protocol (C11): an iterator is a function value `() -> (bool, T)`; a pull is a call without arguments
// (Function::exec_with_args(&[])).  The state of an iterator lives in cells it captured (behind Arc), so NOTHING is
// assumed about what a pull returns: two pulls of the same iterator may differ.  The contracts of collect::exec and
// Reduce::exec therefore quantify over every sequence of pull results; the sequence actually pulled is recorded in a ghost
// history (`pulled`) injected into the loop, and the obligations are invariants / assertions over that history.
/// Function::exec_with_args on arguments: runs the function in a fresh interpreter that knows only the arguments
pub uninterp spec fn fun_call_res(f: FunV, args: Seq<Variable>) -> Result<Variable, ExecError>;
/// the checker admitted this function value as an iterator: `() -> (bool, T)`
pub uninterp spec fn typed_as_iterator(f: FunV) -> bool;
impl FunV {
    #[verifier::external_body]
    pub fn exec_with_args(&self, args: &[Variable]) -> (r: Result<Variable, ExecError>)
        ensures
            // a call WITH arguments is a function of the arguments (effects through captured cells are not modelled: the
            // abstraction every unit uses); a call WITHOUT arguments - a pull - is unconstrained
            args@.len() > 0 ==> r == fun_call_res(*self, args@),
            // well-typedness of what an iterator returns (the checker's guarantee, assumed)
            args@.len() == 0 && typed_as_iterator(*self) && r is Ok && r->Ok_0 is Tuple ==> r->Ok_0->Tuple_0.elems@.len() >= 2,
    { unimplemented!() }
}
/// the pull returned `(c, x)` with c != false: the sequence goes on and x is its next element
pub open spec fn continuing(t: Tup) -> bool { !var_eq(t.elems@[0], Variable::Bool(false)) }
/// x1..xn: the second components of the continuing pulls, in pull order
pub open spec fn kept_elems(p: Seq<Tup>) -> Seq<Variable> decreases p.len() {
    if p.len() == 0 { Seq::empty() } else {
        let r = kept_elems(p.drop_last());
        if continuing(p.last()) { r.push(p.last().elems@[1]) } else { r }
    }
}
/// the left fold f(...f(f(init, x1), x2)..., xn); Err as soon as a call of f fails
pub open spec fn fold_seq(f: FunV, init: Variable, xs: Seq<Variable>) -> Result<Variable, ExecError> decreases xs.len() {
    if xs.len() == 0 { Ok(init) } else {
        match fold_seq(f, init, xs.drop_last()) {
            Err(e) => Err(e),
            Ok(acc) => fun_call_res(f, seq![acc, xs.last()]),
        }
    }
}
// Vec<Variable> -> Variable (impl From<Vec<Variable>> for Variable builds an Array of these elements)
impl vstd::std_specs::convert::FromSpecImpl<Vec<Variable>> for Variable {
    open spec fn obeys_from_spec() -> bool { true }
    open spec fn from_spec(v: Vec<Variable>) -> Variable { Variable::Array(Arr { elems: Ghost(v@) }) }
}
impl From<Vec<Variable>> for Variable {
    #[verifier::external_body]
    fn from(v: Vec<Variable>) -> (r: Variable) { unimplemented!() }
}

// ----- partition (`it \\ p`) ---------------------------------------------------------------------------------------
/// p(x) returned `true` (anything else, including another value, sends x to the second array)
pub open spec fn accepted(p: FunV, x: Variable) -> bool { fun_call_res(p, seq![x]) == Ok::<Variable, ExecError>(Variable::Bool(true)) }
/// every call p(xi) succeeded
pub open spec fn all_ok(p: FunV, xs: Seq<Variable>) -> bool decreases xs.len() {
    if xs.len() == 0 { true } else { all_ok(p, xs.drop_last()) && fun_call_res(p, seq![xs.last()]) is Ok }
}
/// the xi with p(xi), in order / the others, in order
pub open spec fn part_yes(p: FunV, xs: Seq<Variable>) -> Seq<Variable> decreases xs.len() {
    if xs.len() == 0 { Seq::empty() } else {
        let r = part_yes(p, xs.drop_last());
        if accepted(p, xs.last()) { r.push(xs.last()) } else { r }
    }
}
pub open spec fn part_no(p: FunV, xs: Seq<Variable>) -> Seq<Variable> decreases xs.len() {
    if xs.len() == 0 { Seq::empty() } else {
        let r = part_no(p, xs.drop_last());
        if accepted(p, xs.last()) { r } else { r.push(xs.last()) }
    }
}
pub uninterp spec fn spec_fun_type(f: FunV) -> Type;
pub uninterp spec fn spec_iter_element(t: Type) -> Option<Type>;
impl FunV {
    /// Typed::as_type of a function value - not verified
    #[verifier::external_body]
    pub fn as_type(&self) -> (r: Type) ensures r == spec_fun_type(*self) { unimplemented!() }
}
impl Type {
    /// Type::iter_element - not verified (C10 territory)
    #[verifier::external_body]
    pub fn iter_element(&self) -> (r: Option<Type>) ensures r == spec_iter_element(*self) { unimplemented!() }
}
pub assume_specification<T> [core::slice::from_ref::<T>] (s: &T) -> (r: &[T])
    ensures r@ == seq![*s];
// Vec<Variable> -> Arc<[Variable]> (std: the same elements in order)
impl vstd::std_specs::convert::FromSpecImpl<Vec<Variable>> for Tup {
    open spec fn obeys_from_spec() -> bool { true }
    open spec fn from_spec(v: Vec<Variable>) -> Tup { Tup { elems: Ghost(v@) } }
}
impl From<Vec<Variable>> for Tup { #[verifier::external_body] fn from(v: Vec<Variable>) -> (r: Tup) { unimplemented!() } }
// [Variable; 2] -> Arc<[Variable]>
impl vstd::std_specs::convert::FromSpecImpl<[Variable; 2]> for Tup {
    open spec fn obeys_from_spec() -> bool { true }
    open spec fn from_spec(v: [Variable; 2]) -> Tup { Tup { elems: Ghost(v@) } }
}
impl From<[Variable; 2]> for Tup { #[verifier::external_body] fn from(v: [Variable; 2]) -> (r: Tup) { unimplemented!() } }
