"""Back end V: build one Verus file per function under contract from the CURRENT /repo
working tree, run verus, map diagnostics back to named obligations."""
import hashlib
import json
import os
import re
import subprocess
import time

from rustlex import (ExtractError, lex, find_item, match_close, parse_duplicate_table,
                     substitute_idents, expand_match_any, find_semi_item)

REPO = os.environ.get("VERIF_REPO", "/repo")
VERIF = os.path.dirname(os.path.dirname(os.path.abspath(__file__)))


def read_src(rel):
    p = os.path.join(REPO, rel)
    try:
        return open(p, encoding="utf-8").read()
    except OSError as e:
        raise ExtractError(f"cannot read {rel}: {e}")


def strip_attrs(text, keep=()):
    """remove `#[...]` attributes (outer) from an item text; returns (text, dropped list)"""
    dropped = []
    while True:
        toks = lex(text)
        hit = None
        for i, t in enumerate(toks):
            if t.kind == "punct" and t.text == "#" and i + 1 < len(toks) and toks[i + 1].text == "[":
                c = match_close(toks, i + 1)
                a = text[t.start:toks[c].end]
                if any(a.startswith(k) for k in keep):
                    continue
                hit = (t.start, toks[c].end, a)
                break
        if hit is None:
            return text, dropped
        dropped.append(re.sub(r"\s+", " ", hit[2]))
        text = text[:hit[0]] + text[hit[1]:]


def extract_fn(unit):
    """returns dict(sig_head, params, ret, body, raw, sha, notes)"""
    src = read_src(unit["src"])
    notes = []
    path = list(unit["path"])
    dup = unit.get("duplicate")  # (template mod name, instance value of first column)
    loc = find_item(src, path)
    raw = src[loc["start"]:loc["end"]]
    sha = hashlib.sha256(raw.encode()).hexdigest()
    text = raw
    if dup:
        # the template module carries #[duplicate_item(...)]
        mloc = find_item(src, [path[0]])
        attr = src[mloc["attrs_start"]:mloc["start"]]
        names, rows = parse_duplicate_table(attr)
        row = None
        for r in rows:
            if r[names.index(dup["column"])] == dup["value"]:
                row = r
        if row is None:
            raise ExtractError(f"duplicate_item row {dup} not found")
        mapping = dict(zip(names, row))
        text = substitute_idents(text, mapping)
        sha = hashlib.sha256((raw + json.dumps(mapping, sort_keys=True)).encode()).hexdigest()
        notes.append("duplicate_item instantiated: " + ", ".join(f"{k}->[{v}]" for k, v in mapping.items()))
    if "match_any" in text:
        text = expand_match_any(text)
        notes.append("match_any! expanded to one match arm per top-level alternative")
    for old, new in unit.get("rewrites", []):
        if old.startswith("re:"):
            # a macro expansion rule with identifier holes (the proc-macro's own expansion, read off macros/src/)
            text2 = re.sub(old[3:], new, text)
            if text2 != text:
                text = text2
                notes.append(f"rewrite rule applied: /{old[3:]}/ -> `{new}`")
        elif old in text:
            text = text.replace(old, new)
            notes.append(f"rewrite applied: `{old}` -> `{new}`")
    text, dropped = strip_attrs(text)
    for d in dropped:
        notes.append(f"attribute dropped: {d}")
    # split signature / body
    toks = lex(text)
    k = next(i for i, t in enumerate(toks) if t.kind == "ident" and t.text == "fn")
    name = toks[k + 1].text
    j = k + 2
    if toks[j].text == "<":
        depth = 0
        while True:
            t = toks[j]
            if t.text == "<":
                depth += 1
            elif t.text == ">" and not (toks[j - 1].text == "-" and toks[j - 1].end == t.start):
                depth -= 1
                if depth == 0:
                    j += 1
                    break
            j += 1
    if not (toks[j].kind == "open" and toks[j].text == "("):
        raise ExtractError(f"{unit['id']}: cannot find parameter list")
    pc = match_close(toks, j)
    head = text[:toks[pc].end]
    # body open: first '{' at depth 0 after params
    q = pc + 1
    while not (toks[q].kind == "open" and toks[q].text == "{"):
        if toks[q].kind == "open":
            q = match_close(toks, q)
        q += 1
    between = text[toks[pc].end:toks[q].start]
    body = text[toks[q].start:]
    ret, where = None, ""
    m = re.match(r"\s*->\s*(.*?)\s*(where\b.*)?$", between, re.S)
    if m:
        ret = m.group(1).strip()
        where = (m.group(2) or "").strip()
    else:
        m = re.match(r"\s*(where\b.*)?$", between, re.S)
        where = (m.group(1) or "").strip() if m else ""
    return dict(name=name, head=head, ret=ret, where=where, body=body, raw=raw, sha=sha, notes=notes)


def extract_type(spec):
    """verbatim enum/struct item with attributes stripped"""
    src = read_src(spec["src"])
    if spec.get("semi"):
        raw = find_semi_item(src, *spec["semi"])
    else:
        loc = find_item(src, spec["path"])
        raw = src[loc["attrs_start"]:loc["end"]]
    text, dropped = strip_attrs(raw)
    keep = [d for d in ("Clone", "Copy") if any(re.search(r"derive\([^)]*\b%s\b" % d, a) for a in dropped)]
    if "Copy" in keep:
        # Verus accepts derive(Clone, Copy); the other derives (Debug, Display, PartialEq, ...) are dropped
        text = "#[derive(Clone, Copy)]\n" + text
    for old, new in spec.get("rewrites", []):
        text = text.replace(old, new)
    if spec.get("pub_fields", True) and re.match(r"\s*(pub(\([a-z]+\))?\s+)?struct\b", text) and "{" in text:
        # visibility only: private named fields become pub (Verus treats a struct with private
        # fields as opaque in contracts)
        text = re.sub(r"(?m)^(\s+)(?!pub\b)([A-Za-z_][A-Za-z0-9_]*\s*:)", r"\1pub \2", text)
    if spec.get("post"):
        text += "\n" + spec["post"]
    return text, hashlib.sha256(raw.encode()).hexdigest(), dropped


def render_contract(fn, unit, as_stub):
    """signature + requires/ensures; returns (text, clause_lines) where clause_lines maps
    relative line offsets (0-based within text) to obligation ids"""
    lines = []
    vis = "" if fn["head"].lstrip().startswith("pub") else "pub "
    head = vis + fn["head"].strip()
    for old, new in unit.get("sig_rewrites", []):
        head = head.replace(old, new)
    rn = unit.get("ret", "r")
    if fn["ret"]:
        rt = fn["ret"]
        for old, new in unit.get("sig_rewrites", []):
            rt = rt.replace(old, new)
        head += f" -> ({rn}: {rt})"
    lines.append(head)
    if fn["where"]:
        lines.append("    " + fn["where"])
    clause_lines = {}
    if unit.get("requires"):
        lines.append("    requires")
        for rq in unit["requires"]:
            lines.append(f"        {rq},")
    ens = unit.get("ensures", [])
    if any(c is not None for _o, _p, c in ens):
        lines.append("    ensures")
        for oid, _props, clause in ens:
            if clause is None:
                continue   # an obligation carried by an injected `assert` (marker /*@obl:<id>*/ in the body), not a postcondition
            clause_lines[sum(x.count("\n") + 1 for x in lines)] = oid
            lines.append(f"        {clause},")
    if unit.get("no_unwind", False):
        lines.append("    no_unwind")
    return "\n".join(lines), clause_lines


def wrap_item(unit, item_text):
    """place the fn inside `pub mod X { use super::*; ... }` and/or `impl T { ... }`"""
    pre, post = "", ""
    mod = unit.get("mod") or ("unit_scope" if unit.get("broadcast") else None)
    if mod:
        pre += f"pub mod {mod} {{\nuse super::*;\n" + unit.get("mod_extra", "")
        if unit.get("broadcast"):
            # axioms are revealed only inside the module of the function under contract
            pre += "broadcast use " + ", ".join(unit["broadcast"]) + ";\n"
        post = "\n}" + post
    if unit.get("impl"):
        pre += f"impl {unit['impl']} {{\n"
        post = "\n}" + post
    return pre, item_text, post


def build_file(unit, units_by_id, prelude_text, types_text, machine_text, out_path):
    """returns meta dict: clause line map, body line range, notes, sha"""
    fn = extract_fn(unit)
    parts = []
    if unit.get("prelude"):
        # a unit about the environment data structures themselves uses its own small prelude (the main prelude models
        # exactly these structures abstractly)
        prelude_text = open(os.path.join(VERIF, "verus", unit["prelude"] + ".rs")).read()
        types_text = ""
    pl = prelude_text.replace("\n//@TYPES\n", "\n" + types_text + "\n").replace("\n//@MACHINE\n", "\n" + machine_text + "\n")
    for region in unit.get("omit", []):
        # the prelude's assumed contract of the very function this unit proves is left out
        pl, n = re.subn(r"//@BEGIN %s\n.*?//@END %s\n" % (region, region), "", pl, flags=re.S)
        if n != 1:
            raise ExtractError(f"{unit['id']}: prelude region {region} not found")
    # the prelude ends the verus! block itself; we insert our items before its end marker
    marker = "} // verus!"
    idx = pl.rfind(marker)
    head_part, tail_part = pl[:idx], pl[idx:]
    parts.append(head_part)
    # stubs for callees (a callee living in the same module as the function under contract is
    # emitted inside that module's block)
    stub_notes = []
    same_mod_stubs = []
    groups = {}
    for sid in unit.get("stubs", []):
        su = units_by_id[sid]
        sfn = extract_fn(su)
        ctext, _ = render_contract(sfn, su.get("stub_contract", su), True)
        attr = "#[verifier::external_body]\n"
        item = f"// assumed contract of callee {sid} (proved in its own unit)\n{attr}{ctext}\n{{ unimplemented!() }}\n"
        if su.get("mod") and su.get("mod") == unit.get("mod") and not su.get("impl") and not unit.get("impl"):
            same_mod_stubs.append(item)
        else:
            groups.setdefault((su.get("mod"), su.get("impl")), []).append(item)
        stub_notes.append(sid)
    for (m, im), items in groups.items():
        pre, _, post = wrap_item(dict(mod=m, impl=im), "")
        parts.append(pre + "".join(items) + post + "\n")
    for frag in unit.get("fragments", []):
        parts.append(open(os.path.join(VERIF, "verus", frag + ".rs")).read())
    for tspec in unit.get("unit_types", []):
        # types of /repo only this unit needs, copied verbatim like the global ones
        ttext, _tsha, _tdropped = extract_type(tspec)
        parts.append(ttext + "\n")
    if unit.get("extra"):
        parts.append(unit["extra"])
    ctext, clause_rel = render_contract(fn, unit, False)
    pre, _, post = wrap_item(unit, "")
    fattrs = "".join(a + "\n" for a in unit.get("fn_attrs", []))
    before = "".join(parts) + pre + "".join(same_mod_stubs) + \
        f"// ===== function under contract: {unit['id']} (verbatim body from {unit['src']}) =====\n" + fattrs
    start_line = before.count("\n") + 1  # 1-based line of first contract line
    body = fn["body"]
    inj_notes = []
    for anchor, new in unit.get("injections", []):
        if anchor not in body:
            raise ExtractError(f"{unit['id']}: injection anchor lost: {anchor!r}")
        body = body.replace(anchor, new, 1)
        inj_notes.append(f"annotation injected at `{anchor.strip()[:60]}`")
    text = before + ctext + "\n" + body + post + "\n" + tail_part
    clause_lines = {start_line + rel: oid for rel, oid in clause_rel.items()}
    contract_end = start_line + ctext.count("\n")
    body_start = contract_end + 1
    body_end = body_start + body.count("\n")
    with open(out_path, "w") as f:
        f.write(text)
    # obligations carried by injected proof-only assertions: line of the marker -> obligation id
    assert_lines = {}
    for ln, l in enumerate(text.split("\n"), 1):
        m = re.search(r"/\*@obl:([A-Za-z0-9_.]+)\*/", l)
        if m:
            assert_lines[ln] = m.group(1)
    missing = [o for o, _p, c in unit.get("ensures", []) if c is None and o not in assert_lines.values()]
    if missing:
        raise ExtractError(f"{unit['id']}: assertion obligation without marker in the generated text: {missing}")
    return dict(clause_lines=clause_lines, body_range=(body_start, body_end), assert_lines=assert_lines,
                contract_range=(start_line, contract_end),
                notes=fn["notes"] + inj_notes, sha=fn["sha"], stubs=stub_notes, file=out_path)


_err_re = re.compile(r"^(error|warning|note)(\[[A-Z0-9]+\])?: (.*)$")
_loc_re = re.compile(r"^\s*--> (.+?):(\d+):(\d+)")

UNSUPPORTED_PAT = re.compile(
    r"not (yet )?support|unsupported|The verifier does not|internal error|panicked at|"
    r"error\[E\d+\]|cannot find|mismatched types|expected .* found|unresolved|"
    r"is not implemented|no method named|ignored because of|Verus does not|not allowed|"
    r"must be|lifetime|borrow|moved value|use of moved", re.I)


def parse_diagnostics(stderr):
    blocks, cur = [], None
    for line in stderr.splitlines():
        m = _err_re.match(line)
        if m:
            cur = dict(level=m.group(1), code=m.group(2), msg=m.group(3), lines=[line], locs=[], post_line=None)
            blocks.append(cur)
            continue
        if cur is None:
            continue
        cur["lines"].append(line)
        m = _loc_re.match(line)
        if m:
            cur["locs"].append((m.group(1), int(m.group(2)), int(m.group(3))))
        m2 = re.match(r"^\s*(\d+)\s*\|.*", line)
        if m2:
            cur["_last_src_line"] = int(m2.group(1))
        if "failed this postcondition" in line and cur.get("_last_src_line"):
            cur["post_line"] = cur["_last_src_line"]
        if "failed this invariant" in line and cur.get("_last_src_line"):
            cur["inv_line"] = cur["_last_src_line"]
    return blocks


def run_verus(path, rlimit=30, extra=()):
    t0 = time.time()
    cmd = ["verus", path, "--edition=2024", "--multiple-errors", "30", "--output-json", "--time", "--rlimit", str(rlimit),
           "--num-threads", "1", *extra]
    try:
        p = subprocess.run(cmd, capture_output=True, text=True, timeout=600,
                           cwd=os.path.dirname(path))
    except subprocess.TimeoutExpired:
        return dict(status="timeout", wall=time.time() - t0, cmd=" ".join(cmd), stderr="timeout", js=None)
    js = None
    try:
        js = json.loads(p.stdout)
    except Exception:
        pass
    return dict(status="ran", rc=p.returncode, wall=time.time() - t0, cmd=" ".join(cmd), stderr=p.stderr, js=js)


def classify(unit, meta, run):
    """-> dict(obligations: {oid: dict(status=discharged|failed|undecided, detail=...)}, smt_ms, ...)"""
    oids = [o for o, _p, _c in unit.get("ensures", [])]
    safe_id = unit["safe_id"]
    all_ids = oids + ([] if unit.get("no_safe") else [safe_id])
    res = {}

    def undecided(reason):
        return {o: dict(status="undecided", detail=reason) for o in all_ids}

    if run["status"] != "ran":
        return dict(obligations=undecided("verus " + run["status"]), smt_ms=None, func=None)
    js = run["js"]
    blocks = parse_diagnostics(run["stderr"])
    errors = [b for b in blocks if b["level"] == "error" and not b["msg"].startswith("aborting due to")]
    vr = (js or {}).get("verification-results", {})
    if js is None or vr.get("encountered-vir-error") or (run["rc"] != 0 and not errors):
        msg = "; ".join(b["msg"] for b in errors[:3]) or run["stderr"][-400:]
        return dict(obligations=undecided("verus rejected the file: " + msg), smt_ms=None, func=None)
    # any error that is not a verification failure => undecided
    verif_msgs = ("postcondition not satisfied", "precondition not satisfied", "possible arithmetic underflow/overflow",
                  "assertion failed", "invariant not satisfied", "possible division by zero",
                  "loop invariant", "decreases not satisfied", "unreachable", "possible bit shift",
                  "recommendation not met", "precondition not met")
    hard = [b for b in errors if not any(b["msg"].startswith(v) or v in b["msg"] for v in verif_msgs)]
    if hard:
        # resource-limit is undecided as well
        return dict(obligations=undecided("verus error (not a proof failure): " + "; ".join(b["msg"] for b in hard[:3])),
                    smt_ms=None, func=None)
    # function-level timing/success
    smt_ms, fsucc = 0.0, None
    fname = unit.get("verus_fn_suffix") or ("::" + (unit.get("mod") + "::" if unit.get("mod") else "") +
                                            (unit.get("impl") + "::" if unit.get("impl") else ""))
    funcs = []
    try:
        for mod in js["times-ms"]["smt"]["smt-run-module-times"]:
            for fb in mod.get("function-breakdown", []):
                funcs.append(fb)
    except Exception:
        pass
    smt_ms = sum(f["time-micros"] for f in funcs) / 1000.0
    failed = {}
    for b in errors:
        lines_in_file = [l for (_f, l, _c) in b["locs"]]
        pl = b.get("post_line")
        if b["msg"].startswith("postcondition not satisfied") and pl in meta["clause_lines"]:
            failed.setdefault(meta["clause_lines"][pl], []).append(b)
            continue
        # an injected assertion that carries a named obligation
        hit = [meta.get("assert_lines", {}).get(l) for l in lines_in_file if l in meta.get("assert_lines", {})]
        if hit and ("assertion failed" in b["msg"] or "invariant not satisfied" in b["msg"]):
            failed.setdefault(hit[0], []).append(b)
            continue
        # an injected loop invariant that carries a named obligation (marker on the invariant's own line)
        if "invariant not satisfied" in b["msg"] and b.get("inv_line") in meta.get("assert_lines", {}):
            failed.setdefault(meta["assert_lines"][b["inv_line"]], []).append(b)
            continue
        # located in the body (or a callee precondition): safety obligation
        lo, hi = meta["body_range"]
        if any(lo <= l <= hi for l in lines_in_file):
            failed.setdefault(safe_id, []).append(b)
            continue
        # error somewhere else (prelude / stubs): framework problem → undecided
        return dict(obligations=undecided("verification error outside the function under contract: " + b["msg"]),
                    smt_ms=smt_ms, func=funcs)
    # rlimit / timeouts show up as errors with "Resource limit" messages → handled by `hard`
    if unit.get("no_safe"):
        failed.pop(safe_id, None)   # reachable panics are expected in a unit without preconditions
    for o, marker in unit.get("needs_rewrite", {}).items():
        # an obligation that depends on a proof annotation placed by a rewrite rule: when the rule found nothing to
        # annotate on this tree, a failure of the clause says nothing about the code
        if o in failed and not any(marker in n for n in meta.get("notes", [])):
            failed.pop(o)
            res[o] = dict(status="undecided", detail="the proof annotation this clause depends on could not be placed (rewrite rule did not match)")
    for o in all_ids:
        if o in res:
            continue
        if o in failed:
            res[o] = dict(status="failed", detail="\n".join("\n".join(b["lines"]) for b in failed[o]))
        else:
            res[o] = dict(status="discharged", detail="")
    if failed and "recommendation" in run["stderr"]:
        pass
    # if verus says the whole file verified there must be no failures
    if vr.get("success") and failed:
        return dict(obligations=undecided("inconsistent verus output"), smt_ms=smt_ms, func=funcs)
    if not vr.get("success") and not failed and not unit.get("no_safe"):
        return dict(obligations=undecided("verus reported failure without a locatable error: " + run["stderr"][-300:]),
                    smt_ms=smt_ms, func=funcs)
    return dict(obligations=res, smt_ms=smt_ms, func=funcs)
