"""Probe family `peephole` (C04; slices of it serve C07, C08, C09, C12, C19): exhaustive small-shape differential twins.

Every program is a small expression (or statement) shape over effectful leaves `t(k, v)` (they append k to a log cell and
yield v), with some operands written as literal constants.  Its twin is the SAME text with the constants read through
cells (`*(mut c)`), which hides them from the optimizer.  Both must yield the same (value, log) or the same run-time error;
the literal side may report an always-failing constant operation early (C04 permits exactly that).  No oracle is
involved: this is the statement of C04, enumerated over operator x operand shape x special constant instead of sampled.
It is aimed at peephole rewrites in the folding functions (`x ** 2 -> x * x`, `c <= x -> x >= c`, `!(a && b) -> !a | !b`,
`[x; n][i] -> x`, "abc"[i] -> lookup table, dropped `pure` statements ...) that are right for most operands.
"""
from probes import Case, Twin, MIN, MAX

PRE = ("log := mut 0; t := (k: int, v: int) -> int { log = *log * 10 + k; return v }; "
       "tf := (k: int, v: float) -> float { log = *log * 10 + k; return v }; "
       "tb := (k: int, v: bool) -> bool { log = *log * 10 + k; return v }; "
       "ts := (k: int, v: string) -> string { log = *log * 10 + k; return v }; ")

INT_OPS = ["+", "-", "*", "/", "%", "**", "<<", ">>", "&", "|", "^", "<", "<=", ">", ">=", "==", "!="]
FLOAT_OPS = ["+", "-", "*", "/", "<", "<=", ">", ">=", "==", "!="]
BOOL_OPS = ["&&", "||", "&", "|", "^", "==", "!="]
INT_CONSTS = [0, 1, 2, -1, 3, 63, 64, MAX, MIN]
INT_VALS = [0, 1, 2, 3, -1, -7, 64, MAX, MIN]
FLOAT_CONSTS = ["0.0", "(0.0 * (0.0 - 1.0))", "1.0", "2.0", "(0.0 / 0.0)", "(1.0 / 0.0)", "0.5"]
FLOAT_VALS = ["0.0", "(0.0 * (0.0 - 1.0))", "1.0", "(0.0 / 0.0)", "2.5", "(0.0 - 1.0 / 0.0)"]


def ilit(n):
    if n == MIN:
        return "(0 - 9223372036854775807 - 1)"
    return f"(0 - {-n})" if n < 0 else str(n)


class _B:
    """collects twin pairs: `expr` uses placeholders K0, K1, .. for the constants"""
    def __init__(self):
        self.out = []
        self.n = 0

    def add(self, tag, expr, consts, kinds=None, stmts=""):
        """expr: expression text with K0.. placeholders; consts: their literal texts"""
        self.n += 1
        lit, hid = expr, expr
        lstm, hstm = stmts, stmts
        binds = []
        for i, c in enumerate(consts):
            lit = lit.replace(f"K{i}", c)
            lstm = lstm.replace(f"K{i}", c)
            hid = hid.replace(f"K{i}", f"k{i}")
            hstm = hstm.replace(f"K{i}", f"k{i}")
            binds.append(f"k{i} := *(mut {c})")
        bind_txt = "; ".join(binds) + "; " if binds else ""
        hprog = PRE + f"f := () -> any {{ {bind_txt}{hstm}r := {hid}; return (r, *log) }}; f()"
        lprog = PRE + f"f := () -> any {{ {lstm}r := {lit}; return (r, *log) }}; f()"
        hid_case = Case(f"peep/{tag}/{self.n}/hidden", hprog, None, {}, "nostd")
        self.out.append(hid_case)
        self.out.append(Case(f"peep/{tag}/{self.n}/literal", lprog, Twin(hid_case.id), {}, "nostd", what=f"`{lit}` vs the same with hidden constants"))


def build(tier):
    b = _B()
    vals = INT_VALS if tier == "thorough" else [0, 1, 3, -1, 64, MAX, MIN]
    # A. int binary operators: constant on either side of an effectful operand, and constant-constant
    for op in INT_OPS:
        for c in INT_CONSTS:
            for v in vals:
                if op == "**" and (abs(v) > 64 or c > 64):
                    pass   # still fine: modular power
                b.add(f"int/{op}/rc", f"t(1, {ilit(v)}) {op} K0", [ilit(c)])
                b.add(f"int/{op}/lc", f"K0 {op} t(1, {ilit(v)})", [ilit(c)])
            for c2 in (INT_CONSTS if tier == "thorough" else [0, 1, 2, -1, 64, MIN]):
                b.add(f"int/{op}/cc", f"K0 {op} K1", [ilit(c), ilit(c2)])
        b.add(f"int/{op}/ee", f"t(1, 6) {op} t(2, 3)", [])
        if op not in ("<", "<=", ">", ">=", "==", "!="):
            b.add(f"int/{op}/same_operand_twice", f"(t(1, 5) {op} K0) {op} K0", ["2"])
    # B. float binary operators
    for op in FLOAT_OPS:
        for c in FLOAT_CONSTS:
            for v in FLOAT_VALS:
                b.add(f"float/{op}/rc", f"tf(1, {v}) {op} K0", [c])
                b.add(f"float/{op}/lc", f"K0 {op} tf(1, {v})", [c])
            for c2 in FLOAT_CONSTS:
                b.add(f"float/{op}/cc", f"K0 {op} K1", [c, c2])
        for c, c2 in (("0.1", "0.2"), ("1e16", "1.0"), ("0.5", "(0.0 * (0.0 - 1.0))")):
            b.add(f"float/{op}/reassoc", f"(tf(1, 0.3) {op} K0) {op} K1", [c, c2]) if op in "+-*/" else None
    # C. bool operators (short circuit vs strict)
    for op in BOOL_OPS:
        for c in ("true", "false"):
            for v in ("true", "false"):
                b.add(f"bool/{op}/rc", f"tb(1, {v}) {op} K0", [c])
                b.add(f"bool/{op}/lc", f"K0 {op} tb(1, {v})", [c])
                b.add(f"bool/{op}/cc", f"K0 {op} K1", [c, v])
                b.add(f"bool/{op}/ee", f"tb(1, {c}) {op} tb(2, {v})", [])
                # D. negation over the operator
                b.add(f"not/{op}/ee", f"!(tb(1, {c}) {op} tb(2, {v}))", [])
                b.add(f"not/{op}/rc", f"!(tb(1, {v}) {op} K0)", [c])
                b.add(f"not/{op}/lc", f"!(K0 {op} tb(2, {v}))", [c])
                b.add(f"notnot/{op}", f"!(!(tb(1, {c}) {op} tb(2, {v})))", [])
    for op in ("<", "<=", ">", ">=", "==", "!="):
        for v in (1, 2, 3):
            b.add(f"not/cmp/{op}", f"!(t(1, {v}) {op} K0)", ["2"])
            b.add(f"not/fcmp/{op}", f"!(tf(1, {FLOAT_VALS[v % len(FLOAT_VALS)]}) {op} K0)", ["(0.0 / 0.0)"])
    for op in ("+", "-", "*", "/", "<<", "&"):
        b.add(f"neg/{op}", f"-(t(1, 7) {op} K0)", ["2"])
        b.add(f"bitnot/{op}", f"!(t(1, 7) {op} K0)", ["2"])
        b.add(f"negneg/{op}", f"-(-(t(1, 7) {op} K0))", ["2"])
    # E. indexing / slicing / access applied to every literal constructor, constant and run-time positions
    idxs = [-5, -4, -3, -2, -1, 0, 1, 2, 3, 4, MAX, MIN] if tier == "thorough" else [-4, -3, -1, 0, 2, 3, MAX]
    for i in idxs:
        b.add("index/array_literal/ci", "[t(1, 10), t(2, 20), t(3, 30)][K0]", [ilit(i)])
        b.add("index/array_literal/ei", f"[t(1, 10), t(2, 20), t(3, 30)][t(4, {ilit(i)})]", [])
        b.add("index/const_array/ei", f"[10, 20, 30][t(1, {ilit(i)})]", [])
        b.add("index/const_array/ci", "K1[K0]", [ilit(i), "[10, 20, 30]"])
        b.add("index/repeat/ci", "[t(1, 7); K1][K0]", [ilit(i), "3"])
        b.add("index/repeat/ci_zero_len", "[t(1, 7); K1][K0]", [ilit(i), "0"])
        b.add("index/repeat/ei", f"[t(1, 7); K0][t(2, {ilit(i)})]", ["3"])
        b.add("index/const_string/ei", f"K0[t(1, {ilit(i)})]", ['"abc"'])
        b.add("index/const_string/ci", "K1[K0]", [ilit(i), '"aé€"'])
        b.add("index/empty_string/ei", f"K0[t(1, {ilit(i)})]", ['""'])
        b.add("index/string_literal_of_calls/ci", "(ts(1, \"ab\") + ts(2, \"c\"))[K0]", [ilit(i)])
        b.add("index/concat/ci", "([t(1, 10)] + [t(2, 20), t(3, 30)])[K0]", [ilit(i)])
        b.add("index/slice_of_literal/ci", "[t(1, 10), t(2, 20), t(3, 30)][K1:][K0]", [ilit(i), "1"]) if False else None
        for j in ([-2, 0, 1, 3] if tier != "thorough" else [-4, -2, -1, 0, 1, 2, 3, 5]):
            b.add("slice/array_literal/cc", "[t(1, 10), t(2, 20), t(3, 30)][K0:K1]", [ilit(i), ilit(j)])
            b.add("slice/const_string/ec", f"K1[t(1, {ilit(i)}):K0]", [ilit(j), '"abcd"'])
            b.add("slice/step/cc", "[t(1, 10), t(2, 20), t(3, 30), t(4, 40)][::K0]", [ilit(j)])
            b.add("slice/repeat/cc", "[t(1, 7); K2][K0:K1]", [ilit(i), ilit(j), "3"])
    for k in (0, 1, 2):
        b.add("tuple_access/literal", f"(t(1, 10), t(2, 20), t(3, 30)).{k}", [])
        b.add("tuple_access/with_constants", f"(K0, t(2, 20), K1).{k}", ["5", "6"])
    b.add("field_access/literal", "struct{a := t(1, 10), b := t(2, 20)}.a", [])
    b.add("field_access/with_constants", "struct{a := K0, b := t(2, 20)}.a", ["5"])
    b.add("field_access/second", "struct{a := K0, b := t(2, 20)}.b", ["5"])
    # F. array-repeat, tuples and arrays of constants and effects
    for n in (-1, 0, 1, 2):
        b.add("repeat/len_const", "[t(1, 7); K0]", [ilit(n)])
        b.add("repeat/value_const", f"[K0; t(1, {ilit(n)})]", ["7"])
        b.add("repeat/both_const", "[K1; K0]", [ilit(n), "7"])
    b.add("array/mixed", "[K0, t(1, 2), K1]", ["1", "3"])
    b.add("array/all_const", "[K0, K1]", ["1", "2"])
    b.add("array/widening", "[K0, K1]", ["1", "2.5"])
    b.add("tuple/mixed", "(K0, t(1, 2), K1)", ["1", "3"])
    b.add("array/eq_literals", "[t(1, 1), t(2, 2)] == [t(3, 1), t(4, 3)]", [])
    b.add("tuple/eq_literals", "(t(1, 1), t(2, 2)) == (t(3, 9), t(4, 2))", [])
    b.add("tuple/ne_literals", "(t(1, 1), t(2, 2)) != (t(3, 1), t(4, 2))", [])
    b.add("tuple/eq_const", "(t(1, 1), t(2, 2)) == K0", ["(1, 2)"])
    b.add("struct/eq_literals", "struct{a := t(1, 1)} == struct{a := t(2, 1)}", [])
    # G. statements: discarded expressions keep their effects AND their errors; block-valued initialisers run
    for op, bad in (("/", "0"), ("%", "0"), ("<<", "64"), (">>", "(0 - 1)"), ("**", "(0 - 1)")):
        b.add(f"discard/{op}/runtime", "7", [bad], stmts=f"x := t(1, 5); if x == 5 {{ x {op} K0; t(2, 0) }}; ")
        b.add(f"discard/{op}/effect", "7", [bad], stmts=f"{{ t(1, 5) {op} K0; t(2, 0) }}; ")
        b.add(f"discard/{op}/last_in_block", "{ t(1, 5) " + op + " K0 }", [bad])
    b.add("discard/index", "7", ["5"], stmts="a := [t(1, 1)]; { a[K0]; t(2, 0) }; ")
    b.add("discard/pure_ok", "7", ["2"], stmts="x := t(1, 5); { x + K0; x * K0; [x]; (x, K0) }; ")
    b.add("set/block_initialiser", "x", ["5"], stmts="x := { t(1, 0); K0 }; ")
    b.add("set/block_initialiser_nested", "(x, y)", ["5", "6"], stmts="x := { t(1, 0); { t(2, 0); K0 } }; y := { t(3, 0); x + K1 }; ")
    b.add("set/if_initialiser", "x", ["5", "true"], stmts="x := if K1 { t(1, 0); K0 } else { t(2, 0); 0 }; ")
    b.add("if/const_condition_effects", "x", ["true", "false"], stmts="x := mut 0; if K0 { x += t(1, 1) } else { x += t(2, 2) }; if K1 { x += t(3, 4) }; ")
    b.add("if/same_branches", "if tb(1, true) { K0 } else { K0 }", ["5"])
    b.add("while/const_false", "x", ["false"], stmts="x := mut 0; while K0 { x += t(1, 1) }; ")
    b.add("match/const_scrutinee_effectful_candidates", "x", ["3"],
          stmts="x := match K0 { (ts(1, \"s\")) => 1, (t(2, 3)) => 2, (t(3, 3)) => 3, => 4, }; ")
    b.add("match/const_scrutinee_same_type_candidates", "x", ["3"], stmts="x := match K0 { (t(1, 2)) => 1, (t(2, 3)) => 2, => 4, }; ")
    b.add("match/const_candidate", "x", ["3"], stmts="x := match t(1, 3) { (K0) => 1, => 2, }; ")
    b.add("match/const_all", "x", ["3", "3"], stmts="x := match K0 { (K1) => t(1, 1), => t(2, 2), }; ")
    b.add("ifset/const_expression", "x", ["3"], stmts="x := if v: int = K0 { t(1, v) } else { t(2, 0) }; ")
    b.add("compound/const_rhs", "(*c, x)", ["2"], stmts="c := mut t(1, 10); x := (c /= K0); ")
    b.add("compound/target_written_by_rhs", "(*c, x)", ["2"], stmts="c := mut 100; g := () -> int { c = 10; return K0 }; x := (c /= g()); ")
    for op in ("/=", "%=", "<<=", ">>=", "**=", "+=", "-=", "*=", "&=", "|=", "^="):
        b.add(f"compound/{op}/target_written_by_rhs", "(*c, x)", ["2"], stmts=f"c := mut 100; g := () -> int {{ c = 12; return K0 }}; x := (c {op} g()); ")
    b.add("eq/bool_literal_vs_union", "(f(1), f(true), f(0))", ["true", "false"],
          stmts="f := (v: bool | int) -> any { return (v == K0, v != K1, K0 == v, v == K1) }; ")
    b.add("eq/any_vs_literal", "(f(1), f(\"1\"), f(1.0), f([1]))", ["1"], stmts="f := (v: any) -> any { return (v == K0, v != K0) }; ")
    return [c for c in b.out if c is not None]


def fam_peephole(tier, seed, extra=()):
    return build(tier)
