"""Back end K: run Kani harnesses on a scratch copy of the CURRENT /repo working tree."""
import json
import os
import re
import shutil
import subprocess
import tempfile
import time

VERIF = os.path.dirname(os.path.dirname(os.path.abspath(__file__)))
REPO = os.environ.get("VERIF_REPO", "/repo")
NAN_OK = re.compile(r"^NaN on (addition|subtraction|multiplication|division)$")
KANI_FLAGS = ["-Z", "stubbing", "-Z", "function-contracts", "-Z", "unstable-options"]


def make_scratch():
    d = tempfile.mkdtemp(prefix="verif-kani-", dir=os.environ.get("VERIF_SCRATCH", "/tmp"))
    subprocess.run([os.path.join(VERIF, "lib", "kscratch.sh"), d], check=True, capture_output=True)
    return d


def drop_scratch(d):
    shutil.rmtree(d, ignore_errors=True)


def kani_env():
    e = dict(os.environ)
    e["CARGO_NET_OFFLINE"] = "true"
    e["RUST_BACKTRACE"] = "0"
    return e


def run_harnesses(scratch, units, jobs=16, timeout_s=900, log_path=None):
    """-> (results: {harness name: dict(status=passed|failed|timeout|error, ...)}, meta)"""
    names = [u["harness"] for u in units]
    res_json = os.path.join(scratch, "kani_results.json")
    cmd = ["cargo", "kani", *KANI_FLAGS, "--export-json", res_json, "--output-format", "terse",
           "--harness-timeout", f"{timeout_s}s", "--exact", "-j", str(jobs)]
    for n in names:
        cmd += ["--harness", n]
    t0 = time.time()
    p = subprocess.run(cmd, cwd=scratch, env=kani_env(), capture_output=True, text=True)
    wall = time.time() - t0
    log = p.stdout + "\n" + p.stderr
    if log_path:
        with open(log_path, "w") as f:
            f.write(log)
    results = {}
    meta = dict(cmd=" ".join(cmd[:12]) + " --harness <each registered harness>", wall=wall, rc=p.returncode,
                build_error=None, versions={})
    if not os.path.exists(res_json):
        # compilation error or kani crash: nothing is decided
        m = re.findall(r"^error.*$", log, re.M)
        meta["build_error"] = "; ".join(m[:5]) or log[-600:]
        for u in units:
            results[u["name"]] = dict(status="error", detail="kani produced no results: " + meta["build_error"][:400])
        return results, meta
    js = json.load(open(res_json))
    meta["versions"] = js.get("tools", {})
    stats = {c["harness_id"]: (c.get("cbmc_stats") or {}) for c in js.get("cbmc", [])}
    by_id = {r["harness_id"]: r for r in js["verification_results"]["results"]}
    errs = {e["harness_id"]: e for e in js.get("error_details", [])}
    for u in units:
        r = by_id.get(u["harness"])
        if r is None:
            results[u["name"]] = dict(status="error", detail="harness missing from kani results (not compiled?)")
            continue
        checks = r.get("checks", [])
        bad = [c for c in checks if c["status"] not in ("Success", "Unreachable", "Satisfied", "Covered")]
        ignored = []
        real = []
        for c in bad:
            if u.get("nan_ok") and c["status"] == "Failure" and NAN_OK.match(c.get("description", "")):
                ignored.append(c)
            else:
                real.append(c)
        st = stats.get(u["harness"], {})
        entry = dict(duration_ms=r.get("duration_ms"), solver_s=st.get("runtime_solver_s"),
                     symex_s=st.get("runtime_symex_s"), n_checks=len(checks),
                     ignored_nan_checks=len(ignored))
        e = errs.get(u["harness"], {})
        if r["status"] == "Success" or (not real and checks and r["status"] == "Failure" and ignored):
            entry["status"] = "passed"
        elif any(c["status"] == "Failure" for c in real):
            entry["status"] = "failed"
            entry["failed_checks"] = [
                dict(description=c.get("description"), function=c.get("function"),
                     location=c.get("location")) for c in real if c["status"] == "Failure"][:10]
        else:
            # timeout / out of memory / undetermined
            entry["status"] = "timeout" if "timeout" in json.dumps(e).lower() or not checks else "error"
            entry["detail"] = json.dumps(e)[:300] or "undetermined checks"
        if not checks and entry["status"] != "passed":
            entry["detail"] = entry.get("detail", "") + " (no checks reported: timeout or crash)"
        results[u["name"]] = entry
    return results, meta


_vec_re = re.compile(r"vec!\[([0-9, ]*)\]")


def concrete_playback(scratch, unit, timeout_s=600):
    """re-run ONE failed harness with --concrete-playback=print and decode the kani::any() draws"""
    cmd = ["cargo", "kani", *KANI_FLAGS, "-Z", "concrete-playback", "--concrete-playback=print",
           "--exact", "--harness", unit["harness"]]
    try:
        p = subprocess.run(cmd, cwd=scratch, env=kani_env(), capture_output=True, text=True, timeout=timeout_s)
    except subprocess.TimeoutExpired:
        return None, "concrete playback timed out"
    out = p.stdout
    i = out.find("let concrete_vals")
    if i < 0:
        return None, out[-1500:]
    j = out.find("concrete_playback_run", i)
    seg = out[i:j if j > 0 else i + 6000]
    vecs = []
    for m in _vec_re.finditer(seg):
        body = m.group(1).strip()
        vecs.append([int(x) for x in body.split(",") if x.strip()] if body else [])
    # first match may be the outer vec![ ... ] of vecs – keep only flat byte vectors
    vals = []
    it = iter(vecs)
    types = list(unit.get("inputs", []))
    raw = [v for v in vecs]
    k = 0
    for t in types:
        if t.startswith("opt_"):
            if k >= len(raw):
                break
            tag = raw[k]
            k += 1
            if tag and tag[0] != 0:
                if k >= len(raw):
                    break
                vals.append(_decode(t[4:], raw[k]))
                k += 1
            else:
                vals.append(None)
            continue
        if k >= len(raw):
            break
        vals.append(_decode(t, raw[k]))
        k += 1
    return vals, seg[:2500]


def _decode(t, b):
    n = int.from_bytes(bytes(b), "little") if b else 0
    if t in ("i64", "isize"):
        return n - (1 << 64) if n >= (1 << 63) else n
    if t in ("u64", "usize"):
        return n
    if t == "bool":
        return bool(n & 1)
    if t == "f64":
        import struct
        return struct.unpack("<d", struct.pack("<Q", n))[0]
    return n
