"""Probe family `iter` (C11): iterator operators against their sequence definitions.

Every program builds its source iterator with a hand-written generator `mk(a, n)` that counts its pulls in a cell, and
uses mapping / filtering / folding functions that append their identity to a log cell, so that "each source element is
pulled exactly once and in order", "@ and ? are lazy" and "$&& / $|| stop at the first deciding element" are visible in
the result `(value, pulls, log)`.  The expected triple comes from a Python model of the SEQUENCE DEFINITIONS of the
property text (lists, generators, big integers reduced mod 2^64) - it shares no code with /repo.  The same pipelines are
also run over `array~` sources (no pull counter) and with the array elements passed as run-time parameters.
"""
import random

from probes import Case, wrap, Err

MAXI, MINI = 2 ** 63 - 1, -2 ** 63

PRELUDE = (
    "log := mut 0; pulls := mut 0; "
    "mk := (a: [int], n: int) -> () -> (bool, int) { i := mut 0; return () -> (bool, int) { pulls += 1; k := *i; "
    "if k < n { i += 1; return (true, a[k]) } return (false, 0) } }; "
    "f1 := (x: int) -> int { log = *log * 10 + 1; return x + 1 }; "
    "f2 := (x: int) -> int { log = *log * 10 + 2; return x * x }; "
    "f3 := (x: int) -> int { log = *log * 10 + 3; return 0 - x }; "
    "p4 := (x: int) -> bool { log = *log * 10 + 4; return x % 2 == 0 }; "
    "p5 := (x: int) -> bool { log = *log * 10 + 5; return x > 1 }; "
    "g6 := (acc: int, x: int) -> int { log = *log * 10 + 6; return acc * 31 + x }; "
    "g7 := (acc: int, x: int) -> int { log = *log * 10 + 7; return acc - x }; "
    "b8 := (x: int) -> bool { log = *log * 10 + 8; return x < 5 }; "
)

MAPS = {"f1": (1, lambda x: wrap(x + 1)), "f2": (2, lambda x: wrap(x * x)), "f3": (3, lambda x: wrap(0 - x))}
PREDS = {"p4": (4, lambda x: x % 2 == 0), "p5": (5, lambda x: x > 1), "b8": (8, lambda x: x < 5)}
FOLDS = {"g6": (6, lambda a, x: wrap(a * 31 + x)), "g7": (7, lambda a, x: wrap(a - x))}


class _World:
    def __init__(self):
        self.log = 0
        self.pulls = 0

    def note(self, k):
        self.log = wrap(self.log * 10 + k)


class _Src:
    """a stateful source: every pull is counted, also the ones after exhaustion"""
    def __init__(self, w, xs, counted):
        self.w, self.xs, self.k, self.counted = w, list(xs), 0, counted

    def pull(self):
        if self.counted:
            self.w.pulls += 1
        if self.k < len(self.xs):
            self.k += 1
            return True, self.xs[self.k - 1]
        return False, None

    def gen(self):
        while True:
            ok, x = self.pull()
            if not ok:
                return
            yield x


def _source(w, xs, counted):
    return _Src(w, xs, counted).gen()


def _stage(w, it, st):
    kind, name = st
    if kind == "map":
        k, f = MAPS[name]
        for x in it:
            w.note(k)
            yield f(x)
    else:
        k, p = PREDS[name]
        for x in it:
            w.note(k)
            if p(x):
                yield x


def _sim(xs, stages, term, counted, w=None, src=None):
    """-> (value, pulls, log) by the sequence definitions; `w` carries the pull counter and the log of an earlier run,
    `src` a source that an earlier run may have consumed in part"""
    w = w or _World()
    it = src.gen() if src is not None else _source(w, xs, counted)
    for st in stages:
        it = _stage(w, it, st)
    kind = term[0]
    if kind == "collect":
        v = list(it)
    elif kind == "sum":
        v = 0
        for x in it:
            v = wrap(v + x)
    elif kind == "product":
        v = 1
        for x in it:
            v = wrap(v * x)
    elif kind == "band":
        v = -1
        for x in it:
            v &= x
    elif kind == "bor":
        v = 0
        for x in it:
            v |= x
    elif kind == "reduce":
        k, g = FOLDS[term[2]]
        v = term[1]
        for x in it:
            w.note(k)
            v = g(v, x)
    elif kind == "partition":
        k, p = PREDS[term[1]]
        yes, no = [], []
        for x in it:
            w.note(k)
            (yes if p(x) else no).append(x)
        v = (yes, no)
    elif kind in ("all", "any"):
        k, p = PREDS[term[1]]
        v = kind == "all"
        for x in it:          # `it @ p $&&`: p is a mapping stage, the reducer stops at the first deciding element
            w.note(k)
            if p(x) != (kind == "all"):
                v = kind != "all"
                break
    elif kind == "for":
        v = 0
        for x in it:
            if x == term[1]:
                break
            if x == term[2]:
                continue
            v = wrap(v + x)
    elif kind == "first":     # one manual pull of the pipeline: laziness
        v = None
        for x in it:
            v = x
            break
        v = (True, v) if v is not None else (False, None)
    else:
        raise ValueError(kind)
    return v, w.pulls, w.log


def _pipe_text(src, stages, term):
    t = src
    for kind, name in stages:
        t = f"{t} {'@' if kind == 'map' else '?'} {name}"
    kind = term[0]
    if kind == "collect":
        return f"r := {t} $];"
    if kind == "sum":
        return f"r := {t} $+;"
    if kind == "product":
        return f"r := {t} $*;"
    if kind == "band":
        return f"r := {t} $&;"
    if kind == "bor":
        return f"r := {t} $|;"
    if kind == "reduce":
        return f"r := {t} ${_n(term[1])} {term[2]};"
    if kind == "partition":
        return f"r := {t} \\ {term[1]};"
    if kind == "all":
        return f"r := {t} @ {term[1]} $&&;"
    if kind == "any":
        return f"r := {t} @ {term[1]} $||;"
    if kind == "for":
        return f"acc := mut 0; for x in {t} {{ if x == {term[1]} {{ break }} if x == {term[2]} {{ continue }} acc += x }} r := *acc;"
    if kind == "first":
        return f"pipeline := {t}; before := (*pulls, *log); r := pipeline();"
    raise ValueError(kind)


def _n(x):
    if x == MINI:
        return "(0 - 9223372036854775807 - 1)"
    return str(x) if x >= 0 else f"(0 - {-x})"


def _lit(xs):
    return "[" + ", ".join(_n(x) for x in xs) + "]"


def _cases_for(cid, xs, stages, term):
    out = []
    # (a) counted generator source, top level and inside a function
    v, pulls, log = _sim(xs, stages, term, True)
    if term[0] == "first":
        # nothing may be pulled or called when the pipeline is only BUILT; one pull of the pipeline pulls the source until
        # the first element that passes
        exp = ((0, 0), (v[0], v[1]) if v[0] else None, pulls, log)
        res = "(before, r, *pulls, *log)"
    else:
        exp = (v, pulls, log)
        res = "(r, *pulls, *log)"
    src = f"mk({_lit(xs)}, {len(xs)})"
    if not xs:
        src = "mk([0], 0)"
    body = _pipe_text(src, stages, term)
    if term[0] == "first" and not v[0]:
        return out      # the value component of an exhausted pipeline is unspecified
    out.append(Case(f"it/{cid}/gen/top", PRELUDE + body + " " + res, exp, what="counted generator, top level"))
    out.append(Case(f"it/{cid}/gen/fn", PRELUDE + f"main := () -> any {{ {body} return {res} }}; main()", exp,
                    what="counted generator, inside a function"))
    if term[0] == "first":
        return out
    # (a') the SAME pipeline expression executed twice, over two different sources (nothing may be remembered from the first run)
    xs2 = [wrap(x * 3 + 1) for x in reversed(xs)] + [4]
    w = _World()
    v1, _p, _l = _sim(xs, stages, term, True, w)
    v2, pulls2, log2 = _sim(xs2, stages, term, True, w)
    body_t = _pipe_text("mk(a, n)", stages, term)
    out.append(Case(f"it/{cid}/gen/twice", PRELUDE + f"run := (a: [int], n: int) -> any {{ {body_t} return r }}; "
                    f"r1 := run({_lit(xs) if xs else '[0]'}, {len(xs)}); r2 := run({_lit(xs2)}, {len(xs2)}); (r1, r2, *pulls, *log)",
                    (v1, v2, pulls2, log2), what="the same pipeline run twice over different sources"))
    # (a'') the pipeline sits in a closure that CAPTURES the (stateful) iterator: creating the closure pulls nothing, the first call
    # consumes the source, the second call finds it exhausted (one more pull, which says so)
    w = _World()
    shared = _Src(w, xs, True)
    c1, _p, _l = _sim(xs, stages, term, True, w, shared)
    c2, cp, cl = _sim(xs, stages, term, True, w, shared)     # continues where the first call stopped
    body_c = _pipe_text("it", stages, term)
    out.append(Case(f"it/{cid}/gen/captured", PRELUDE + f"it := {src}; run := () -> any {{ {body_c} return r }}; p0 := (*pulls, *log); "
                    f"r1 := run(); r2 := run(); (p0, r1, r2, *pulls, *log)", ((0, 0), c1, c2, cp, cl),
                    what="the pipeline in a closure capturing a stateful iterator: nothing is pulled when the closure is created"))
    # (b) array~ source (no pull counter): literal array, and elements hidden behind function parameters
    v2, _p, log2 = _sim(xs, stages, term, False)
    if xs:
        body2 = _pipe_text(f"{_lit(xs)}~", stages, term)
        out.append(Case(f"it/{cid}/arr/lit", PRELUDE + body2 + " (r, *log)", (v2, log2), what="array~ source, literal elements"))
        ps = ", ".join(f"e{i}: int" for i in range(len(xs)))
        body3 = _pipe_text("[" + ", ".join(f"e{i}" for i in range(len(xs))) + "]~", stages, term)
        out.append(Case(f"it/{cid}/arr/hidden", PRELUDE + f"main := ({ps}) -> any {{ {body3} return (r, *log) }}; "
                        f"main({', '.join(_n(x) for x in xs)})", (v2, log2),
                        what="array~ source, elements are run-time parameters"))
    return out


FIXED = [
    # (elements, stages, terminal)
    ([], [], ("collect",)), ([7], [], ("collect",)), ([3, 1, 4, 1, 5], [], ("collect",)),
    ([], [], ("sum",)), ([], [], ("product",)), ([], [], ("band",)), ([], [], ("bor",)),
    ([], [], ("all", "b8")), ([], [], ("any", "b8")), ([], [], ("reduce", 5, "g6")), ([], [], ("partition", "p4")),
    ([1, 2, 3, 4], [], ("sum",)), ([1, 2, 3, 4], [], ("product",)), ([MAXI, 1], [], ("sum",)), ([MAXI, 2], [], ("product",)),
    ([MINI, -1], [], ("product",)), ([12, 10, 6], [], ("band",)), ([12, 10, 6], [], ("bor",)), ([-1, -1], [], ("band",)),
    ([1, 2, 3], [], ("reduce", 0, "g6")), ([1, 2, 3], [], ("reduce", 10, "g7")), ([5], [], ("reduce", -2, "g7")),
    ([1, 2, 3, 4, 5, 6], [], ("partition", "p4")), ([1, 3], [], ("partition", "p4")), ([2, 4], [], ("partition", "p4")),
    ([1, 2, 9, 3], [], ("all", "b8")), ([9, 1], [], ("all", "b8")), ([1, 2, 3], [], ("all", "b8")),
    ([9, 8, 1, 7], [], ("any", "b8")), ([1, 9], [], ("any", "b8")), ([9, 8], [], ("any", "b8")),
    ([1, 2, 3, 4], [("map", "f1")], ("collect",)), ([1, 2, 3, 4], [("filter", "p4")], ("collect",)),
    ([1, 2, 3, 4], [("map", "f1"), ("filter", "p4")], ("collect",)), ([1, 2, 3, 4], [("filter", "p4"), ("map", "f2")], ("collect",)),
    ([1, 2, 3, 4], [("map", "f1"), ("map", "f2"), ("map", "f3")], ("sum",)),
    ([1, 2, 3, 4, 5], [("filter", "p5"), ("filter", "p4")], ("collect",)),
    ([1, 2, 3, 4, 5], [], ("for", 4, 2)), ([1, 2, 3], [], ("for", 9, 9)), ([4, 1], [], ("for", 4, 2)), ([2, 2, 1], [], ("for", 9, 2)),
    ([1, 2, 3, 4, 5], [("map", "f1")], ("for", 4, 2)), ([1, 2, 3, 4, 5], [("filter", "p4")], ("for", 4, 9)),
    ([1, 3, 5, 6, 7], [("filter", "p4")], ("first",)), ([1, 2, 3], [("map", "f2")], ("first",)),
    ([1, 2, 3], [("map", "f1"), ("filter", "p4")], ("first",)), ([3, 4], [], ("first",)),
    ([1, 2, 3, 4, 5, 6, 7, 8], [("filter", "p4"), ("map", "f1")], ("reduce", 1, "g6")),
    ([2, 4, 6], [("filter", "p4")], ("all", "b8")), ([5, 2, 7], [("map", "f1")], ("any", "b8")),
]

FIXED += [
    # absorbing / deciding elements early in the sequence: only $&& and $|| may stop there, every other reducer pulls on
    ([2, 0, 3, 4], [], ("product",)), ([0, 5], [], ("product",)), ([1 << 32, 1 << 32, 7, 9], [], ("product",)), ([3, 0], [("map", "f1")], ("product",)),
    ([12, 0, 6, 3], [], ("band",)), ([0, -1], [], ("band",)), ([5, -1, 2, 8], [], ("bor",)), ([-1, 0], [], ("bor",)),
    ([0, 0, 5], [], ("sum",)), ([MAXI, MINI, 1], [], ("sum",)), ([1, 0, 2], [], ("reduce", 1, "g6")), ([0, 7], [("filter", "p4")], ("product",)),
    ([2, 0, 3], [("map", "f2")], ("band",)), ([9, 1, 9, 1], [], ("all", "b8")), ([1, 9, 1, 9], [], ("any", "b8")),
]

TYPED = [
    # `it ? T` and typed reducers over non-int elements: (program, expected)
    ('[1, 2.5, "s", 4]~ ? int $]', [1, 4]), ('[1, 2.5, "s", 4]~ ? float $]', [2.5]), ('[1, 2.5, "s", 4]~ ? string $]', ["s"]),
    ('[1, 2.5, "s", 4]~ ? int | string $]', [1, "s", 4]), ('[1, 2.5]~ ? string $]', []),
    ('[1, 2.5, "s", 4]~ ? any $]', [1, 2.5, "s", 4]),
    ('[[1], [2.5], []]~ ? [int] $]', [[1], []]),
    ('[(1, "a"), (2, 3)]~ ? (int, int) $]', [(2, 3)]),
    ('main := (a: int | float, b: int | float, c: int | float) -> any { return [a, b, c]~ ? int $] }; main(1, 2.5, 3)', [1, 3]),
    ('[1.5, 2.25]~ $+', 3.75), ('[1.5, 2.0]~ $*', 3.0), ('["a", "bc", ""]~ $+', "abc"),
    ('[0.1, 0.2, 0.3]~ $+', (0.1 + 0.2) + 0.3), ('[1.0e308, 1.0e308, -1.0e308]~ $+', float("inf")),
    ('[true, true]~ $&&', True), ('[true, false]~ $&&', False), ('[false, false]~ $||', False), ('[false, true]~ $||', True),
    # the same `? T` / `~` / reducer expression evaluated again with other operands
    ('ints := (a: [int | float]) -> [int] { return a~ ? int $] }; (ints([1, 2.5, 3]), ints([10, 20.5, 30, 40]), ints([0.5]))', ([1, 3], [10, 30, 40], [])),
    ('strs := (a: [int | string]) -> [string] { return a~ ? string $] }; (strs(["a", 1]), strs([2, "b", "c"]))', (["a"], ["b", "c"])),
    ('f := () -> [int] { return [1, 2, 3]~ $] }; (f(), f(), f())', ([1, 2, 3], [1, 2, 3], [1, 2, 3])),
    ('f := (a: [int]) -> int { return a~ $+ }; (f([1, 2]), f([10, 20, 30]), f([1, 2]))', (3, 60, 3)),
    ('f := (a: [int]) -> [int] { return a~ @ (x: int) -> int { return x * 2 } $] }; (f([1, 2]), f([5]))', ([2, 4], [10])),
    ('f := (a: [int]) -> [int] { return a~ ? (x: int) -> bool { return x > 1 } $] }; (f([1, 2, 3]), f([0, 9]))', ([2, 3], [9])),
    ('f := (a: [int]) -> ([int], [int]) { return a~ \\ (x: int) -> bool { return x > 1 } }; (f([1, 2, 3]), f([0, 9]))', (([2, 3], [1]), ([9], [0]))),
    ('out := mut 0; for i in [1, 2, 3]~ { out += [10, 20, 30]~ $+ } *out', 180),
    ('out := mut 0; for i in [1, 2]~ { for j in [1, 2, 3]~ { out += i * j } } *out', 18),
    ('k := mut 0; f := () -> [int] { k += 1; return [*k, *k + 1]~ $] }; (f(), f())', ([1, 2], [2, 3])),
    ('[1, 2, 3]~ $]', [1, 2, 3]), ('[[1, 2], [3]]~ $]', [[1, 2], [3]]), ('["x", "y"]~ $]', ["x", "y"]),
    ('a := [5, 6, 7]; it := a~; (it(), it(), it(), it().0)', ((True, 5), (True, 6), (True, 7), False)),
    ('a := [5, 6]; i1 := a~; i2 := a~; (i1(), i2(), i1(), i2())', ((True, 5), (True, 5), (True, 6), (True, 6))),
    ('it := [1, 2, 3]~; x := it $]; y := it $]; (x, y)', ([1, 2, 3], [])),
    ('it := [1, 2, 3, 4]~; a := it(); r := it $+; (a, r)', ((True, 1), 9)),
    ('s := mut 0; for x in [1, 2, 3]~ { for y in [10, 20]~ { if y == 20 { break } s += x * y } } *s', 60),
    ('s := mut 0; for x in [1, 2, 3]~ { if x == 2 { continue } s += x } *s', 4),
    ('s := mut ""; for c in ["a", "b"]~ { s = *s + c } *s', "ab"),
    ('r := [3, 4]~ @ (x: int) -> float { return 0.5 } $+; r', 1.0),
    ('r := [3, 4]~ @ (x: int) -> string { return "q" } $+; r', "qq"),
    ('r := [1, 2, 3]~ ? (x: int) -> bool { return false } $]; r', []),
    ('r := [1, 2, 3]~ \\ (x: int) -> bool { return true }; r', ([1, 2, 3], [])),
    ('r := ([1, 2]~ $+) + ([3]~ $*) * 2; r', 9),
    ('main := (n: int) -> any { it := [n, n + 1]~; return (it $], it $]) }; main(4)', ([4, 5], [])),
]


# an iterator is an ordinary function value: it may call itself by its declared name, declare names of its own, and the
# caller may use any names (also the ones the built-in operators use internally).  x1..xn here are 2, 4 (REC) resp. 1, 2 (DECL).
REC = ("mk := () -> () -> (bool, int) { n := mut 0; gen := () -> (bool, int) { n += 1; if *n % 2 == 1 { return gen() } "
       "return (*n < 6, *n) } return gen }; ")
DECL = ("x := mut 7; value := 70; res := 71; con := 72; iterator := 73; func := 74; k := mut 0; "
        "it := () -> (bool, int) { x := mut 0; value := 1; res := 2; con := 3; k += 1; return (*k < 3, *k) }; ")
_AFTER = "(r, *x, value, res, con, iterator, func)"
_KEPT = (7, 70, 71, 72, 73, 74)
SCOPED = [
    (REC + "it := mk(); r := it $]; r", [2, 4]), (REC + "it := mk(); r := it $+; r", 6), (REC + "it := mk(); r := it $*; r", 8),
    (REC + "it := mk(); r := it $0 (a: int, b: int) -> int { return a * 10 + b }; r", 24),
    (REC + "it := mk(); r := it \\ (v: int) -> bool { return v > 2 }; r", ([4], [2])),
    (REC + "it := mk(); r := it @ (v: int) -> int { return v + 1 } $]; r", [3, 5]),
    (REC + "it := mk(); r := it ? (v: int) -> bool { return v > 2 } $]; r", [4]),
    (REC + "it := mk(); r := it ? int $]; r", [2, 4]), (REC + "it := mk(); r := it $&; r", 0), (REC + "it := mk(); r := it $|; r", 6),
    (REC + "it := mk(); r := it @ (v: int) -> bool { return v > 0 } $&&; r", True),
    (REC + "it := mk(); s := mut 0; for v in it { s += v } *s", 6), (REC + "it := mk(); (it(), it(), it().0)", ((True, 2), (True, 4), False)),
    (REC + "f := () -> any { it := mk(); return it $] }; f()", [2, 4]),
]
for _t, _v in [("it $]", [1, 2]), ("it $+", 3), ("it $0 (a: int, b: int) -> int { return a * 10 + b }", 12),
               ("it \\ (v: int) -> bool { return v > 1 }", ([2], [1])), ("it @ (v: int) -> int { return v + 1 } $]", [2, 3]),
               ("it ? (v: int) -> bool { return v > 1 } $]", [2]), ("it ? int $]", [1, 2]), ("it $*", 2), ("it $|", 3)]:
    SCOPED.append((DECL + f"r := {_t}; " + _AFTER, (_v,) + _KEPT))
    SCOPED.append(("main := () -> any { " + DECL + f"r := {_t}; return " + _AFTER + " }; main()", (_v,) + _KEPT))
SCOPED.append((DECL + "s := mut 0; for v in it { s += v } r := *s; " + _AFTER, (3,) + _KEPT))


# a source that can be REFILLED (its index cell is reset): an adapter or a consumer that remembers "exhausted" is wrong
REFILL = ("i := mut 0; it := () -> (bool, int) { k := *i; if k < 3 { i += 1; return (true, k + 1) } return (false, 0) }; "
          "dbl := (x: int) -> int { return x * 2 }; big := (x: int) -> bool { return x > 1 }; add := (a: int, b: int) -> int { return a + b }; ")
for _t, _v in [("it $]", [1, 2, 3]), ("it @ dbl $]", [2, 4, 6]), ("it ? big $]", [2, 3]), ("it ? int $]", [1, 2, 3]), ("it $+", 6), ("it $*", 6),
               ("it $0 add", 6), ("it \\ big", ([2, 3], [1])), ("it @ dbl ? big $+", 12), ("it @ big $&&", False), ("it @ big $||", True)]:
    SCOPED.append((REFILL + f"run := () -> any {{ return {_t} }}; a := run(); i = 0; b := run(); i = 0; c := run(); (a, b, c)", (_v, _v, _v)))
    SCOPED.append((REFILL + f"a := {_t}; i = 0; b := {_t}; (a, b)", (_v, _v)))
SCOPED.append((REFILL + "m := it @ dbl; a := m $]; i = 0; b := m $]; (a, b)", ([2, 4, 6], [2, 4, 6])))
SCOPED.append((REFILL + "m := it ? big; a := m $]; i = 0; b := m $]; (a, b)", ([2, 3], [2, 3])))
SCOPED.append((REFILL + "m := it ? int; a := m $]; i = 0; b := m $]; (a, b)", ([1, 2, 3], [1, 2, 3])))


# An error raised by f / p / the fold function at one particular element ends the whole operator with that error (round k,
# C11-k2: partition swallowed the predicate's error, counted the element as "without" and went on). Inside a function body:
# Code::exec_unscoped drops the error of a non-last top-level statement (observation D3).
ERRING = [
    ("partition", "{SRC} \\ (x: int) -> bool {{ return 12 / x > 2 }}"),
    ("filter", "{SRC} ? (x: int) -> bool {{ return 12 / x > 2 }} $]"),
    ("map", "{SRC} @ (x: int) -> int {{ return 12 / x }} $]"),
    ("map_partition", "{SRC} @ (x: int) -> int {{ return 12 / x }} \\ (x: int) -> bool {{ return x > 2 }}"),
    ("reduce", "{SRC} $ 0 (acc: int, x: int) -> int {{ return acc + 12 / x }}"),
    ("map_sum", "{SRC} @ (x: int) -> int {{ return 12 / x }} $+"),
    ("map_all", "{SRC} @ (x: int) -> bool {{ return 12 / x > 0 }} $&&"),
    ("partition_modulo", "{SRC} \\ (x: int) -> bool {{ return 12 % x == 0 }}"),
]


def _erring_cases():
    from probes import Err, E_ZDIV, E_ZMOD
    out = []
    for name, tpl in ERRING:
        err = E_ZMOD if "modulo" in name else E_ZDIV
        for j, xs in enumerate(([6, 1, 0, 12, 2], [0], [3, 4, 0], [0, 5, 6])):
            lit = "[" + ", ".join(map(str, xs)) + "]"
            out.append(Case(f"it/erring/{name}/{j}/lit", "main := () -> any { r := " + tpl.format(SRC=lit + "~") + "; return r }; main()", Err(err),
                            what="the function / predicate fails at one element: the operator fails with that error"))
            out.append(Case(f"it/erring/{name}/{j}/hidden", "main := (a: [int]) -> any { r := " + tpl.format(SRC="a~") + "; return r }; main(" + lit + ")", Err(err),
                            what="the function / predicate fails at one element: the operator fails with that error (array passed as argument)"))
    return out


def fam_iter(tier, seed, extra=()):
    out = _erring_cases()
    for k, (prog, exp) in enumerate(SCOPED):
        out.append(Case(f"it/scoped{k}", prog, exp, what="iterator that calls itself by name / declares names; caller's names survive"))
    for k, (xs, stages, term) in enumerate(FIXED):
        out += _cases_for(f"fixed{k}", xs, stages, term)
    for k, (prog, exp) in enumerate(TYPED):
        out.append(Case(f"it/typed{k}", prog, exp, what="typed / shared-iterator scenario"))
    rng = random.Random(7919 * (seed + 1))
    n = 150 if tier == "quick" else 1500
    pool = [-3, -2, -1, 0, 1, 2, 3, 4, 5, 6, 7, 8, 9, 12, 255]
    for k in range(n):
        ln = rng.choice([0, 1, 2, 3, 3, 4, 5, 6])
        xs = [rng.choice(pool) for _ in range(ln)]
        if rng.random() < 0.1 and xs:
            xs[rng.randrange(len(xs))] = rng.choice([MAXI, MINI, MAXI - 1])
        stages = []
        for _ in range(rng.choice([0, 0, 1, 1, 2, 3])):
            if rng.random() < 0.5:
                stages.append(("map", rng.choice(list(MAPS))))
            else:
                stages.append(("filter", rng.choice(list(PREDS))))
        t = rng.choice(["collect", "sum", "product", "band", "bor", "reduce", "partition", "all", "any", "for", "first"])
        if t == "reduce":
            term = (t, rng.choice([0, 1, -1, 5, 100]), rng.choice(list(FOLDS)))
        elif t in ("partition", "all", "any"):
            term = (t, rng.choice(list(PREDS)))
        elif t == "for":
            term = (t, rng.choice(pool), rng.choice(pool))
        else:
            term = (t,)
        if t in ("product", "band", "bor") and xs and rng.random() < 0.6:
            xs[rng.randrange(len(xs))] = {"product": 0, "band": 0, "bor": -1}[t]
        out += _cases_for(f"rnd{k}", xs, stages, term)
    return out
