"""Probe family `capture` (C04, C07, C09, C12): every syntactic position of every construct, inside a closure that
captures a run-time value.

A function value is re-folded (`recreate`) when it is created, with the values its free names have at that moment; the
body then runs in a fresh interpreter that knows only the parameters.  A `recreate` implementation that forgets one of
its children (a slice step, a match candidate, the else branch of an if-set, ...) leaves a free name behind, or folds
it against the wrong environment.  Each case builds `mk := (k: int, ...) -> () -> any { return () -> any { E } }` and
calls `mk(3, ...)()`: E mentions the captured names in ONE position; the expected value is computed by hand
(Python).  The same expression is also run directly inside a function taking the names as parameters (no capture)
and at top level with the names bound through cells, as controls.
"""
from probes import Case, Err, E_INDEX, E_ZDIV

# (name, expression using k (int, = 3), j (int, = 1), s (string "abcdef"), a (array [10, 20, 30, 40]), b (bool true),
#  u (int | string, = "w"), expected value)
POSITIONS = [
    ("binop/lhs", "k + 1", 4), ("binop/rhs", "1 - k", -2), ("binop/both", "k * k + j", 10),
    ("unary/neg", "-k", -3), ("unary/not", "!k", -4), ("logic/and_lhs", "b && false", False),
    ("logic/and_rhs", "true && b", True), ("logic/or_rhs", "false || b", True), ("compare", "k > j", True),
    ("index/array", "a[j]", 20), ("index/index", "[7, 8, 9, 10][k]", 10), ("index/neg", "a[0 - j]", 40),
    ("index/string", "s[k]", "d"), ("index/both", "a[k - j]", 30),
    ("slice/operand", "a[1:3]", [20, 30]), ("slice/start", "[1, 2, 3, 4, 5][j:]", [2, 3, 4, 5]),
    ("slice/stop", "[1, 2, 3, 4, 5][:k]", [1, 2, 3]), ("slice/step", "[1, 2, 3, 4, 5][::k]", [1, 4]),
    ("slice/start_stop", "[1, 2, 3, 4, 5][j:k]", [2, 3]), ("slice/start_step", "[1, 2, 3, 4, 5][j::k]", [2, 5]),
    ("slice/stop_step", "[1, 2, 3, 4, 5][:k:j]", [1, 2, 3]), ("slice/all", "[1, 2, 3, 4, 5, 6][j:k + 2:k - 1]", [2, 4]),
    ("slice/neg_step", "[1, 2, 3, 4, 5][::0 - j]", [5, 4, 3, 2, 1]), ("slice/string_step", "s[::k]", "ad"),
    ("slice/string_all", "s[j:k + 2:2]", "bd"),
    ("array/element", "[j, k, 7]", [1, 3, 7]), ("array/nested", "[[k], [j, k]]", [[3], [1, 3]]),
    ("tuple/element", "(j, k, 7)", (1, 3, 7)), ("tuple/access", "(j, k, 7).1", 3), ("tuple/access_of_capture", "(a, k).1", 3),
    ("repeat/value", "[k; 2]", [3, 3]), ("repeat/len", "[7; k]", [7, 7, 7]), ("repeat/both", "[j; k]", [1, 1, 1]),
    ("struct/field", "struct{x := k, y := j}.x", 3), ("struct/second_field", "struct{x := 0, y := k}.y", 3),
    ("struct/shorthand", "struct{k, j}.k", 3),
    ("if/condition", "if b { 1 } else { 2 }", 1), ("if/then", "if true { k } else { 2 }", 3),
    ("if/else", "if false { 1 } else { k }", 3), ("if/runtime_cond_then", "if k > j { k } else { j }", 3),
    ("if/no_else", "{ c := mut 0; if b { c = k }; *c }", 3),
    ("ifset/expression", "if x: int = k { x + 1 } else { 0 }", 4), ("ifset/body", "if x: int = 5 { x + k } else { 0 }", 8),
    ("ifset/else", "if x: string = u { 0 } else { k }", 0), ("ifset/else_taken", "if x: int = u { 0 } else { k }", 3),
    ("ifset/same_name_binder_match", "if k: int = k { k + 1 } else { 0 }", 4),
    ("ifset/same_name_binder_else", "if u: int = u { 0 } else { u }", "w"),
    ("ifset/same_name_binder_else_other", "if u: int = u { 0 } else { k }", 3),
    ("match/scrutinee", "match k { (3) => 1, => 2, }", 1), ("match/candidate", "match 3 { (k) => 1, => 2, }", 1),
    ("match/candidate_miss", "match 4 { (k) => 1, => 2, }", 2), ("match/value_body", "match 3 { (3) => k, => 2, }", 3),
    ("match/type_body", "match u { x: string => k, y: int => 0, }", 3), ("match/other_body", "match 9 { (1) => 0, => k, }", 3),
    ("match/same_name_binder", "match u { u: int => 0, => u, }", "w"),
    ("match/binder_shadows_then_read_after", "{ r := match u { k: string => k, k: int => \"i\", }; (r, k) }", ("w", 3)),
    ("block/statement", "{ x := k + 1; x * 2 }", 8), ("block/last", "{ 1; k }", 3),
    ("set/value", "{ x := k; y := x; y }", 3), ("destruct/value", "{ (p, q) := (k, j); p - q }", 2),
    ("destruct/swap", "{ p := k; q := j; (p, q) := (q, p); (p, q) }", (1, 3)),
    ("mut/initialiser", "{ c := mut k; c += 1; *c }", 4), ("assign/rhs", "{ c := mut 1; c = k; *c }", 3),
    ("assign/compound_rhs", "{ c := mut 1; c *= k; c -= j; *c }", 2),
    ("while/condition", "{ i := mut 0; while *i < k { i += 1 }; *i }", 3),
    ("while/body", "{ i := mut 0; n := mut 0; while *i < 2 { i += 1; n += k }; *n }", 6),
    ("whileset/expression", "{ vals := [1, 2, \"s\"]; i := mut 0; while x: int = vals[*i] { i += j }; *i }", 2),
    ("loop/body", "{ i := mut 0; loop { i += k; if *i > 5 { break } }; *i }", 6),
    ("for/iterator", "{ n := mut 0; for x in a~ { n += x }; *n }", 100), ("for/body", "{ n := mut 0; for x in [1, 2]~ { n += x * k }; *n }", 9),
    ("call/argument", "(x: int) -> int { return x + 1 }(k)", 4), ("call/function", "{ f := (x: int) -> int { return x + k }; f(j) }", 4),
    ("call/nested_closure", "{ f := () -> int { return k * 2 }; f() + j }", 7),
    ("iter/map", "a~ @ (x: int) -> int { return x + k } $]", [13, 23, 33, 43]),
    ("iter/filter", "a~ ? (x: int) -> bool { return x > k * 5 } $]", [20, 30, 40]),
    ("iter/reduce_init", "[1, 2]~ $k (acc: int, cur: int) -> int { return acc + cur }", 6),
    ("iter/sum_of_capture", "a~ $+", 100),
    ("return/value", "{ g := () -> int { return k }; g() }", 3),
    ("error/index", "a[k + j]", Err(E_INDEX)), ("error/division", "k / (j - 1)", Err(E_ZDIV)),
]


def fam_capture(tier, seed, extra=()):
    out = []
    binds = "k := *(mut 3); j := *(mut 1); s := \"abcde\" + *(mut \"f\"); a := [10, 20, 30] + [*(mut 40)]; b := *(mut true); "
    uval = "u := if *(mut true) { \"w\" } else { 0 }; "
    sig = "k: int, j: int, s: string, a: [int], b: bool, u: int | string"
    args = "3, 1, \"abcdef\", [10, 20, 30, 40], true, \"w\""
    for name, e, exp in POSITIONS:
        # captured by a closure created at run time (recreate with captured values, then a fresh interpreter)
        out.append(Case(f"capture/closure/{name}", f"mk := ({sig}) -> () -> any {{ return () -> any {{ return {e} }} }}; mk({args})()", exp,
                        what=f"`{e}` inside a closure capturing its names"))
        # captured twice (closure in a closure)
        out.append(Case(f"capture/nested/{name}",
                        f"mk := ({sig}) -> () -> () -> any {{ return () -> () -> any {{ return () -> any {{ return {e} }} }} }}; mk({args})()()", exp,
                        what=f"`{e}` inside a closure inside a closure"))
        # control: plain parameters
        out.append(Case(f"capture/params/{name}", f"f := ({sig}) -> any {{ return {e} }}; f({args})", exp))
        # control: a named (recursive-capable) local function declared inside another function
        out.append(Case(f"capture/declared/{name}", f"mk := ({sig}) -> any {{ inner := () -> any {{ return {e} }}; return inner() }}; mk({args})", exp))
    return out
