"""Probe programs replayed on the real interpreter through its public API, with expected
outcomes from an oracle that shares no code with /repo (Python big integers, IEEE doubles
via struct, Python slice semantics, hand-derived traces).

Probes are (a) the replay step after a failed/undecided obligation, and (b) bounded
stand-ins for glue that no contract reaches (parser -> operator mapping, assign::exec,
Instruction::exec dispatch).  They are never counted as discharged obligations.
"""
import math
import random
import re
import struct

M64 = 1 << 64
MIN, MAX = -(1 << 63), (1 << 63) - 1

# error KINDS (variant names of ExecError / Error), not message texts: re-wording a message is harmless
E_ZDIV = "ZeroDivision"
E_ZMOD = "ZeroModulo"
E_SHIFT = "OverflowShift"
E_NEGEXP = "NegativeExponent"
E_INDEX = "IndexOutOfBounds"
E_NEGLEN = "NegativeLength"


def wrap(x):
    x %= M64
    return x - M64 if x >= (1 << 63) else x


def tdiv(a, b):
    q = abs(a) // abs(b)
    return q if (a >= 0) == (b >= 0) else -q


class Err:
    def __init__(self, msg):
        self.msg = msg

    def __repr__(self):
        return f"Err({self.msg!r})"


def int_op(op, a, b):
    if op == "+":
        return wrap(a + b)
    if op == "-":
        return wrap(a - b)
    if op == "*":
        return wrap(a * b)
    if op == "/":
        return Err(E_ZDIV) if b == 0 else wrap(tdiv(a, b))
    if op == "%":
        return Err(E_ZMOD) if b == 0 else wrap(a - b * tdiv(a, b))
    if op == "**":
        return Err(E_NEGEXP) if b < 0 else wrap(pow(a, b, M64))
    if op == "<<":
        return wrap(a << b) if 0 <= b <= 63 else Err(E_SHIFT)
    if op == ">>":
        return (a >> b) if 0 <= b <= 63 else Err(E_SHIFT)
    if op == "&":
        return a & b
    if op == "|":
        return a | b
    if op == "^":
        return a ^ b
    if op == ">":
        return a > b
    if op == ">=":
        return a >= b
    if op == "<":
        return a < b
    if op == "<=":
        return a <= b
    if op == "==":
        return a == b
    if op == "!=":
        return a != b
    raise KeyError(op)


def f_bits(x):
    return struct.unpack("<Q", struct.pack("<d", x))[0]


def bits_f(b):
    return struct.unpack("<d", struct.pack("<Q", b))[0]


def float_op(op, a, b):
    try:
        if op == "+":
            return a + b
        if op == "-":
            return a - b
        if op == "*":
            return a * b
        if op == "/":
            if b == 0.0:
                if a == 0.0 or math.isnan(a):
                    return math.nan
                neg = (math.copysign(1.0, a) < 0) != (math.copysign(1.0, b) < 0)
                return -math.inf if neg else math.inf
            return a / b
    except OverflowError:
        return math.nan  # not reached for + - * / on doubles
    if op == ">":
        return a > b
    if op == ">=":
        return a >= b
    if op == "<":
        return a < b
    if op == "<=":
        return a <= b
    if op == "==":
        return a == b
    if op == "!=":
        return a != b
    raise KeyError(op)


INT_GRID = [0, 1, -1, 2, -2, 3, -3, 7, -7, 10, 62, 63, 64, 65, -63, -64, 255, (1 << 31) - 1, 1 << 31, (1 << 32) - 1,
            1 << 32, (1 << 32) + 1, 1 << 33, (1 << 33) + 3, 1 << 62, MAX, MAX - 1, MIN, MIN + 1, 12345678901,
            -98765432109, 3037000500, -3037000499]
SMALL_GRID = [0, 1, -1, 2, -2, 3, 7, -7, 63, 64, -64, 1 << 32, (1 << 32) + 1, MAX, MIN]
FLOAT_GRID = [0.0, -0.0, 1.0, -1.0, 0.5, 2.0, 3.0, -2.5, 1e308, -1e308, 5e-324, 2.2250738585072014e-308, math.inf,
              -math.inf, math.nan, 0.1, 0.2, 1e16, 123456.789, -7.0]


class ErrOrEarly(Err):
    """the run-time error `msg`, or — for a program with constant operands — ANY of the documented errors reported at
    parse time (C04: an always-failing constant operation may be reported early even if evaluation would have failed
    elsewhere first)"""


class AnyOf:
    """any of several outcomes is acceptable (the property PERMITS, but does not require, one of them)"""
    def __init__(self, *alts):
        self.alts = alts

    def __repr__(self):
        return "AnyOf(" + ", ".join(repr(a) for a in self.alts) + ")"


class Twin:
    """expectation `behaves like case <other>` (differential; C04): same status and same value/error;
    `early_ok`: this (literal-constant) side may instead report the twin's... any exec error at parse time"""
    def __init__(self, other):
        self.other = other

    def __repr__(self):
        return f"Twin({self.other!r})"


class Steps:
    """REPL-style case (replayer mode `steps`): the program is a list of steps run one after the other in ONE interpreter;
    `expects` gives the expected outcome of each step (a value, an Err, or None for `do not care`)"""
    def __init__(self, expects):
        self.expects = expects

    def __repr__(self):
        return "Steps(" + ", ".join(repr(e) for e in self.expects) + ")"


STEP_SEP = "\x1e"


class Rejected:
    """the program must be rejected by the checker (a parse-time error of any kind)"""
    def __repr__(self):
        return "Rejected()"


class Case:
    __slots__ = ("id", "prog", "vars", "mode", "expect", "what")

    def __init__(self, id, prog, expect, vars=None, mode="nostd", what=""):
        self.id, self.prog, self.expect, self.vars, self.mode, self.what = id, prog, expect, vars or {}, mode, what

    def line(self):
        vs = []
        for n, v in self.vars.items():
            if isinstance(v, bool):
                vs.append(f"{n}=b:{int(v)}")
            elif isinstance(v, int):
                vs.append(f"{n}=i:{v}")
            else:
                vs.append(f"{n}=f:{f_bits(v)}")
        return f"{self.id}\t{self.mode}\t{self.prog.encode().hex()}\t{';'.join(vs)}"


# ------------------------------------------------------------------ parsing of Debug output
def parse_value(text):
    """parse the interpreter's Debug rendering into python values:
    int, float, bool, None for (), str, list for arrays, tuple for tuples; anything else -> ('raw', text)"""
    pos = 0
    n = len(text)

    def ws():
        nonlocal pos
        while pos < n and text[pos] == " ":
            pos += 1

    def val():
        nonlocal pos
        ws()
        if text.startswith("()", pos):
            pos += 2
            return None
        if text.startswith("true", pos):
            pos += 4
            return True
        if text.startswith("false", pos):
            pos += 5
            return False
        if text[pos] == '"':
            j = pos + 1
            out = []
            while text[j] != '"':
                if text[j] == "\\":
                    out.append(text[j:j + 2])
                    j += 2
                else:
                    out.append(text[j])
                    j += 1
            pos = j + 1
            return "".join(out)
        if text[pos] in "[(":
            close = "]" if text[pos] == "[" else ")"
            is_list = text[pos] == "["
            pos += 1
            items = []
            ws()
            while text[pos] != close:
                items.append(val())
                ws()
                if text[pos] == ",":
                    pos += 1
                ws()
            pos += 1
            return items if is_list else tuple(items)
        j = pos
        while j < n and text[j] not in ",)] ":
            j += 1
        tok = text[pos:j]
        pos = j
        if tok in ("NaN", "inf", "-inf"):
            return float(tok.replace("NaN", "nan"))
        try:
            return int(tok)
        except ValueError:
            pass
        try:
            return float(tok)
        except ValueError:
            raise ValueError(f"cannot parse {tok!r}")

    try:
        v = val()
        ws()
        if pos != n:
            return ("raw", text)
        return v
    except Exception:
        return ("raw", text)


def same(exp, got):
    if isinstance(exp, bool) or isinstance(got, bool):
        return isinstance(exp, bool) and isinstance(got, bool) and exp == got
    if isinstance(exp, float):
        if not isinstance(got, float):
            return False
        if math.isnan(exp) or math.isnan(got):
            return math.isnan(exp) and math.isnan(got)
        return f_bits(exp) == f_bits(got)
    if isinstance(exp, int):
        return isinstance(got, int) and not isinstance(got, float) and exp == got
    if isinstance(exp, (list, tuple)):
        return type(exp) == type(got) and len(exp) == len(got) and all(same(a, b) for a, b in zip(exp, got))
    return exp == got


EXEC_ERRORS = (E_ZDIV, E_ZMOD, E_SHIFT, E_NEGEXP, E_INDEX, E_NEGLEN)


def judge_twin(case, mine, other):
    """literal-constant program (mine) vs hidden-constant twin (other)"""
    (st, tx), (so, to) = mine, other
    if "not_run" in (st, so):
        return None
    if st in ("timeout", "crash") or so in ("timeout", "crash"):
        return f"literal side {st}: {tx} / hidden side {so}: {to}"
    if case.id.endswith("/toplevel"):
        # top-level twins: a swallowed run-time error (observation D3: Code::exec_unscoped drops the error of a non-last
        # statement) leaves a name unbound and the next read panics - on both sides alike, or on the hidden side only when the
        # literal side reports the always-failing constant operation early (permitted). Not C04's business.
        if st == "panic" and so == "panic":
            return None
        if so == "panic" and st == "parse_error" and tx.split("|", 1)[0] in EXEC_ERRORS:
            return None
    if st == "panic" or so == "panic":
        return f"panic: literal side {st}: {tx} / hidden side {so}: {to}"
    if st == "ok" and so == "ok":
        a, b = parse_value(tx), parse_value(to)
        return None if (same(a, b) or tx == to) else f"literal constants give {tx}, hidden constants give {to}"
    if (st == "parse_error" and tx.split("|", 1)[0] in EXEC_ERRORS) or (so == "parse_error" and to.split("|", 1)[0] in EXEC_ERRORS):
        # permitted: an operation on constants that fails whenever evaluated, reported early (the "hidden" side may
        # still contain such an operation on literals that are not among the hidden constants)
        return None
    if st == "exec_error" and so == "exec_error":
        return None if tx.split("|", 1)[0] == to.split("|", 1)[0] else f"literal constants fail with `{tx}`, hidden constants with `{to}`"
    return f"literal constants: {st}: {tx}; hidden constants: {so}: {to}"


def judge(case, status, text):
    """-> None if the observation agrees with the oracle, else a description"""
    exp = case.expect
    if status == "not_run":
        return None
    if isinstance(exp, Steps):
        if status != "ok":
            return f"steps: {status}: {text}"
        outs = text.split(STEP_SEP)
        probs = []
        for k, e in enumerate(exp.expects):
            if k >= len(outs):
                probs.append(f"step {k + 1}: not reached (an earlier step panicked)")
                break
            st, _, tx = outs[k].partition(":")
            if st == "panic":
                probs.append(f"step {k + 1}: panic: {tx}")
                break
            if e is None:
                continue
            j = judge(Case(case.id, case.prog, e, case.vars, case.mode, case.what), st, tx)
            if j:
                probs.append(f"step {k + 1}: {j}")
        return "; ".join(probs) or None
    if isinstance(exp, AnyOf):
        probs = []
        for alt in exp.alts:
            j = judge(Case(case.id, case.prog, alt, case.vars, case.mode, case.what), status, text)
            if j is None:
                return None
            probs.append(j)
        return " and ".join(probs)
    if isinstance(exp, Rejected):
        return None if status == "parse_error" else f"expected the checker to reject the program, observed {status}: {text}"
    if isinstance(exp, Err):
        if status in ("exec_error", "parse_error") and text.split("|", 1)[0] == exp.msg:
            return None
        if isinstance(exp, ErrOrEarly) and status == "parse_error" and text.split("|", 1)[0] in EXEC_ERRORS:
            return None
        return f"expected error `{exp.msg}`, observed {status}: {text}"
    if status != "ok":
        return f"expected value {exp!r}, observed {status}: {text}"
    got = parse_value(text)
    if same(exp, got):
        return None
    return f"expected value {exp!r}, observed {text}"


# ------------------------------------------------------------------ families
COMPOUND = {"+": "+=", "-": "-=", "*": "*=", "/": "/=", "%": "%=", "**": "**=", "<<": "<<=", ">>": ">>=",
            "&": "&=", "|": "|=", "^": "^="}
BOOL_RESULT = {">", ">=", "<", "<=", "==", "!="}


def binop_cases(op, pairs, kind="int", tag=""):
    """three evaluation paths of one operator on the same operands"""
    ty = {"int": "int", "float": "float", "bool": "bool"}[kind]
    rty = "bool" if op in BOOL_RESULT else ty
    out = []
    for i, (a, b) in enumerate(pairs):
        if kind == "int":
            exp = int_op(op, a, b)
        elif kind == "float":
            exp = float_op(op, a, b)
        else:
            exp = {"&": a and b, "|": a or b, "^": a != b, "==": a == b, "!=": a != b}[op]
        vs = {"a": a, "b": b}
        out.append(Case(f"{tag}{op}/{kind}/folded/{i}", f"a {op} b", exp, vs, what=f"{a!r} {op} {b!r} (constant operands)"))
        out.append(Case(f"{tag}{op}/{kind}/runtime/{i}",
                        f"f := (x: {ty}, y: {ty}) -> {rty} {{ return x {op} y }}; f(a, b)", exp, vs,
                        what=f"{a!r} {op} {b!r} (run-time operands)"))
        # one operand constant, the other run-time: create_from_instructions sees (non-constant, constant)
        out.append(Case(f"{tag}{op}/{kind}/mixed_rc/{i}", f"f := (x: {ty}) -> {rty} {{ return x {op} b }}; f(a)", exp, vs,
                        what=f"x {op} {b!r} with x = {a!r} at run time"))
        out.append(Case(f"{tag}{op}/{kind}/mixed_cr/{i}", f"f := (y: {ty}) -> {rty} {{ return a {op} y }}; f(b)", exp, vs,
                        what=f"{a!r} {op} y with y = {b!r} at run time"))
        if op in COMPOUND:
            exp2 = exp if isinstance(exp, Err) else (exp, exp)
            out.append(Case(f"{tag}{op}/{kind}/compound_const_rhs/{i}",
                            f"f := (x: {ty}) -> ({ty}, {ty}) {{ m := mut x; r := (m {COMPOUND[op]} b); return (r, *m) }}; f(a)",
                            exp2, vs, what=f"m := mut {a!r}; m {COMPOUND[op]} {b!r} (literal right-hand side)"))
            # inside a function body: Code::exec_unscoped drops the error of a non-last top-level
            # statement (observation D3 in DESIGN), which would mask the operator's own error
            out.append(Case(f"{tag}{op}/{kind}/compound/{i}",
                            f"f := (x: {ty}, y: {ty}) -> ({ty}, {ty}) {{ m := mut x; r := (m {COMPOUND[op]} y); return (r, *m) }}; f(a, b)",
                            exp2, vs, what=f"m := mut {a!r}; m {COMPOUND[op]} {b!r}"))
            if isinstance(exp, Err):
                # failing without changing the cell is C13's business; here: same error
                pass
    return out


def grid_pairs(grid, extra=()):
    ps = [(a, b) for a in grid for b in grid]
    # counterexamples handed over by K: keep well-formed pairs; a single operand is paired with the grid's edge values
    for e in extra:
        e = tuple(e)
        if len(e) == 2 and all(x is not None for x in e):
            ps.append(e)
        elif len(e) == 1 and e[0] is not None:
            ps.extend([(e[0], 0), (e[0], 1), (e[0], 2), (e[0], 3), (e[0], 63), (e[0], 64)])
    return ps


def fam_arith(op, tier, seed, extra=()):
    grid = INT_GRID if (tier == "thorough" or op in ("**", "<<", ">>", "/", "%")) else SMALL_GRID
    pairs = grid_pairs(grid, extra)
    if tier == "thorough":
        rnd = random.Random(seed * 7919 + hash(op) % 1000)
        for _ in range(400):
            a = rnd.choice([rnd.randint(MIN, MAX), rnd.randint(-100, 100), rnd.choice(INT_GRID)])
            b = rnd.choice([rnd.randint(MIN, MAX), rnd.randint(-70, 70), rnd.choice(INT_GRID)])
            pairs.append((a, b))
    return binop_cases(op, pairs)


def fam_unary(tier, seed, extra=()):
    out = []
    for i, a in enumerate(list(INT_GRID) + [e[0] for e in extra if isinstance(e[0], int)]):
        vs = {"a": a}
        out.append(Case(f"neg/folded/{i}", "-a", wrap(-a), vs, what=f"-({a})"))
        out.append(Case(f"neg/runtime/{i}", "f := (x: int) -> int { return -x }; f(a)", wrap(-a), vs))
        out.append(Case(f"not/folded/{i}", "!a", ~a, vs, what=f"!({a})"))
        out.append(Case(f"not/runtime/{i}", "f := (x: int) -> int { return !x }; f(a)", ~a, vs))
    for i, a in enumerate(FLOAT_GRID):
        vs = {"a": a}
        exp = bits_f(f_bits(a) ^ (1 << 63))
        out.append(Case(f"fneg/folded/{i}", "-a", exp, vs))
        out.append(Case(f"fneg/runtime/{i}", "f := (x: float) -> float { return -x }; f(a)", exp, vs))
    for a in (True, False):
        out.append(Case(f"bnot/folded/{a}", "!a", not a, {"a": a}))
        out.append(Case(f"bnot/runtime/{a}", "f := (x: bool) -> bool { return !x }; f(a)", not a, {"a": a}))
    return out


def fam_bitwise(tier, seed, extra=()):
    out = []
    pairs = grid_pairs(SMALL_GRID if tier == "quick" else INT_GRID, [e for e in extra if len(e) == 2])
    for op in ("&", "|", "^"):
        out += binop_cases(op, pairs)
        out += binop_cases(op, [(a, b) for a in (True, False) for b in (True, False)], kind="bool")
    return out + [c for c in fam_unary(tier, seed) if c.id.startswith(("not/", "bnot/"))]


def fam_compare(tier, seed, extra=()):
    out = []
    for i, (a, b) in enumerate(grid_pairs([0, 1, -1, MIN, MAX, 7])):
        for op in ("<", "<=", ">", ">=", "==", "!="):
            out.append(Case(f"notcmp/{op}/{i}", f"f := (x: int, y: int) -> bool {{ return !(x {op} y) }}; f(a, b)", not int_op(op, a, b), {"a": a, "b": b}))
    pairs = grid_pairs((SMALL_GRID if tier == "quick" else INT_GRID) + [(1 << 53) + 1, 1 << 53, MAX - 1], _typed_extras(extra, int))
    fpairs = grid_pairs(FLOAT_GRID, _typed_extras(extra, float))
    for op in (">", ">=", "<", "<="):
        out += binop_cases(op, pairs)
        out += binop_cases(op, fpairs, kind="float")
    return out


def fam_float(tier, seed, extra=()):
    out = []
    pairs = grid_pairs(FLOAT_GRID, [e for e in extra if len(e) == 2])
    if tier == "thorough":
        rnd = random.Random(seed + 17)
        for _ in range(300):
            pairs.append((bits_f(rnd.getrandbits(64)), bits_f(rnd.getrandbits(64))))
    for op in ("+", "-", "*", "/"):
        out += binop_cases(op, pairs, kind="float")
    # chains: a run-time operand followed by TWO literal constants must be evaluated left to right
    # (floating point is not associative): ((x op c1) op c2)
    chain_vals = [0.1, 1e16, -0.0, 1e308, 3.0, 5e-324, math.inf, math.nan]
    consts = [(0.2, 0.3), (1.0, 1.0), (1e308, -1e308), (0.1, 0.7), (3.0, 1e-16)]
    k = 0
    for x in chain_vals:
        for (c1, c2) in consts:
            for o1 in ("+", "-", "*", "/"):
                for o2 in ("+", "-", "*", "/"):
                    exp = float_op(o2, float_op(o1, x, c1), c2)
                    out.append(Case(f"fchain/{k}", f"f := (x: float) -> float {{ return x {o1} c1 {o2} c2 }}; f(a)" if o1 in "*/" or o2 in "+-"
                                    else f"f := (x: float) -> float {{ return (x {o1} c1) {o2} c2 }}; f(a)",
                                    exp, {"a": x, "c1": c1, "c2": c2}, what=f"({x!r} {o1} {c1!r}) {o2} {c2!r}"))
                    k += 1
    # negation of a comparison is NOT the complementary comparison when an operand is NaN
    for i, (a, b) in enumerate(grid_pairs([0.0, -0.0, 1.0, -1.0, math.inf, -math.inf, math.nan, 5e-324])):
        for op in ("<", "<=", ">", ">=", "==", "!="):
            exp = not float_op(op, a, b)
            out.append(Case(f"fnotcmp/{op}/rt/{i}", f"f := (x: float, y: float) -> bool {{ return !(x {op} y) }}; f(a, b)", exp, {"a": a, "b": b}))
            out.append(Case(f"fnotcmp/{op}/folded/{i}", f"!(a {op} b)", exp, {"a": a, "b": b}))
            out.append(Case(f"fnotcmp/{op}/mixed/{i}", f"f := (x: float) -> bool {{ return !(x {op} b) }}; f(a)", exp, {"a": a, "b": b}))
    return out + [c for c in fam_unary(tier, seed) if c.id.startswith("fneg/")]


def _typed_extras(extra, typ):
    """operand tuples handed over by a K counterexample, restricted to one scalar type"""
    out = []
    for e in extra:
        vals = [x for x in e if isinstance(x, typ) and not isinstance(x, bool)] if typ is not bool else [x for x in e if isinstance(x, bool)]
        for i in range(0, len(vals) - 1, 2):
            out.append((vals[i], vals[i + 1]))
        if len(vals) == 1:
            out.append((vals[0], vals[0]))
    return out


def fam_eq(tier, seed, extra=()):
    out = []
    pairs = grid_pairs(SMALL_GRID + [(1 << 53) + 1, 1 << 53, MAX - 1], _typed_extras(extra, int))
    out += binop_cases("==", pairs) + binop_cases("!=", pairs)
    fp = grid_pairs(FLOAT_GRID, _typed_extras(extra, float))
    out += binop_cases("==", fp, kind="float") + binop_cases("!=", fp, kind="float")
    out += binop_cases("==", [(a, b) for a in (True, False) for b in (True, False)], kind="bool")
    fixed = [
        ('"ab" == "ab"', True), ('"ab" == "abc"', False), ('"ab" != "ab"', False), ("() == ()", True),
        ("1 == 1.0", False), ("1 != 1.0", True), ('1 == "1"', False), ("() == 0", False), ("true == 1", False),
        ("(1, 2.5) == (1, 2.5)", True), ("(1, 2.5) == (1, 2.0)", False), ("(1, 2) == [1, 2]", False),
        ("(1, (2, 3)) == (1, (2, 3))", True),
        ("struct{a := 1, b := 2.0} == struct{b := 2.0, a := 1}", True),
        ("struct{a := 1} == struct{a := 2}", False), ("struct{a := 1} == struct{a := 1, b := 1}", False),
        ("c := mut 1; c == c", True), ("c := mut 1; d := c; c == d", True), ("c := mut 1; d := mut 1; c == d", False),
        ("f := () -> int { return 1 }; f == f", True),
        ("f := () -> int { return 1 }; g := () -> int { return 1 }; f == g", False),
        ("f := () -> int { return 1 }; g := f; f == g", True),
        # identity survives every way a function value can travel: its own name inside its body, arguments,
        # results, containers, captures
        ("f := (g: any) -> bool { return g == f }; f(f)", True),
        ("me := () -> any { return me }; me() == me", True),
        ("me := () -> any { return me }; (me() != me, [me()] == [me], (me(), 1) == (me, 1))", (False, True, True)),
        ("id := (x: any) -> any { return x }; f := () -> int { return 1 }; (id(f) == f, id(id) == id)", (True, True)),
        ("f := () -> int { return 1 }; arr := [f, f]; (arr[0] == arr[1], arr[0] == f)", (True, True)),
        ("f := () -> int { return 1 }; h := () -> any { return f }; h() == f", True),
        ("mk := () -> () -> int { return () -> int { return 1 } }; a := mk(); b := mk(); (a == a, a == b)", (True, False)),
        ("c := mut 1; id := (x: any) -> any { return x }; (id(c) == c, [c][0] == c, struct{a := c}.a == c)", (True, True, True)),
        ("c := mut 1; h := () -> mut int { return c }; (h() == c, h() == mut 1)", (True, False)),
        ("x := 0.0 / 0.0; x == x", False), ("x := [0.0 / 0.0]; x == x", False),
        # static types of the operands differ, contents are equal
        ("f := (s: struct{a: int | float}, t: struct{a: int}) -> (bool, bool) { return (s == t, s != t) }; v := struct{a := 1}; f(v, v)", (True, False)),
        ("f := (a: struct{x: int}, b: struct{x: int, y: int}) -> (bool, bool) { return (a == b, a != b) }; s := struct{x := 1, y := 2}; f(s, s)", (True, False)),
        ("f := (a: struct{x: any}, b: struct{x: int}) -> bool { return a == b }; f(struct{x := 3}, struct{x := 3})", True),
        ("f := (a: int | float, b: int) -> (bool, bool) { return (a == b, a != b) }; (f(1, 1), f(1.0, 1))", ((True, False), (False, True))),
        ("f := (a: any, b: int) -> bool { return a == b }; (f(2, 2), f(\"2\", 2))", (True, False)),
        ("f := (a: [int | float], b: [int]) -> (bool, bool) { return (a == b, a != b) }; f([1, 2], [1, 2])", (True, False)),
        ("f := (a: [any], b: [int]) -> bool { return a == b }; (f([1], [1]), f([], []))", (True, True)),
        ("f := (a: (int | float, any), b: (int, int)) -> bool { return a == b }; f((1, 2), (1, 2))", True),
        ("f := (a: int | string, b: float | string) -> bool { return a == b }; (f(\"s\", \"s\"), f(1, 1.0))", (True, False)),
        ("f := (a: () | int, b: ()) -> bool { return a == b }; (f((), ()), f(0, ()))", (True, False)),
        # by content, also when both operands are the very same object
        ("n := 0.0 / 0.0; s := struct{a := n}; s == s", False), ("n := 0.0 / 0.0; s := (n, 1); s == s", False),
        ("n := 0.0 / 0.0; s := struct{a := n}; t := s; (s == t, s != t)", (False, True)),
        ("n := 0.0 / 0.0; s := [struct{a := [n]}]; s == s", False),
        ("f := (x: float) -> bool { s := struct{a := x / x}; return s == s }; f(0.0)", False),
        ("f := (x: float) -> bool { s := (x / x, 1); return s == s }; f(0.0)", False),
        ("f := (x: float) -> bool { s := [x / x]; return s == s }; f(0.0)", False),
        ("f := (x: float) -> bool { s := struct{a := x}; return s == s }; f(1.5)", True),
        # value arms of match use the same equality
        # (a value arm only parses with ONE parenthesised candidate: observation D4 in DESIGN)
        ("match [0; 0] { ([]) => 1, => 2, }", 1), ("match 1.0 { (1) => 1, (1.0) => 2, => 3, }", 2),
        ("match (1, [2]) { ((1, [2])) => 1, => 2, }", 1),
        ("match [0; 0] { [1], [] => 1, => 2, }", 1), ("match 1.0 { 1, 2 => 1, 2.0, 1.0 => 2, => 3, }", 2),
        ("f := (v: [int]) -> int { return match v { [1], [1, 2] => 1, [] => 0, => 2, } }; (f([1] + [2]), f([0; 0]), f([3]))", (1, 0, 2)),
        # distinct function values stay distinct whatever they are called: same declared name and signature, made twice
        ("make := (k: int) -> () -> int { f := () -> int { return k }; return f }; a := make(1); b := make(2); (a == b, a != b, a == a, [a] == [b])",
         (False, True, True, False)),
        ("make := (k: int) -> () -> int { f := () -> int { return k }; return f }; g := (x: any, y: any) -> bool { return x == y }; (g(make(1), make(1)), g(make, make))",
         (False, True)),
        ("a := { f := () -> int { return 1 }; f }; b := { f := () -> int { return 2 }; f }; r := match a { (b) => 1, => 2, }; (a == b, r)", (False, 2)),
        # a bool literal on one side, a NON-bool run-time value of a wider static type on the other
        ("f := (x: bool | int, kt: bool, kf: bool) -> any { return (x == true, x != false, true == x, x == kt, x != kf, x == false, x != true) }; (f(1, true, false), f(0, true, false), f(true, true, false))",
         ((False, True, False, False, True, False, True), (False, True, False, False, True, False, True), (True, True, True, True, True, False, False))),
        ("f := (x: any) -> any { return (x == true, x != false, x == 1, x == \"true\") }; (f(1), f(\"true\"), f(true), f(7))",
         ((False, True, True, False), (False, True, False, True), (True, True, False, False), (False, True, False, False))),
        ("f := (x: () | int | bool) -> any { return (x == (), x != (), x == 0, x == false) }; (f(()), f(0), f(false))",
         ((True, False, False, False), (False, True, True, False), (False, True, False, True))),
        # differences deep inside nested containers
        ("[[[[[[[1]]]]]]] == [[[[[[[2]]]]]]]", False), ("[[[[[[[1]]]]]]] != [[[[[[[2]]]]]]]", True), ("[[[[[[[1]]]]]]] == [[[[[[[1]]]]]]]", True),
        ("((((((((1, 2),),),),),),),) == ((((((((1, 3),),),),),),),)", False) if False else ("(1, (2, (3, (4, (5, (6, (7, (8, 9)))))))) == (1, (2, (3, (4, (5, (6, (7, (8, 0))))))))", False),
        ("f := (x: any, y: any) -> bool { return x == y }; (f([[[[[[[1.5]]]]]]], [[[[[[[()]]]]]]]), f([[[[[[[1.5]]]]]]], [[[[[[[1.5]]]]]]]))", (False, True)),
        ("a := struct{p := [struct{q := ([[1, 2]], 3)}]}; b := struct{p := [struct{q := ([[1, 5]], 3)}]}; (a == b, a != b, a == a)", (False, True, True)),
        ("match [[[[[[[1]]]]]]] { ([[[[[[[2]]]]]]]) => 1, => 2, }", 2),
        # NaN inside arrays however the array was produced; the same array value on both sides
        ("n := 0.0 / 0.0; a := [1.5] + [n]; (a == a, a != a)", (False, True)),
        ("n := 0.0 / 0.0; a := [1] + [n]; b := a; (a == b, [a] == [a], (a, 1) == (a, 1))", (False, False, False)),
        ("f := (x: float) -> any { a := [1] + [x / x]; b := [x / x, 2][0:1]; c := [x / x]~ $]; return (a == a, b == b, c == c, a != a) }; f(0.0)", (False, False, False, True)),
        ("f := (x: float) -> int { a := [1] + [x / x]; return match a { (a) => 1, => 2, } }; f(0.0)", 2),
        # value arms: every combination of a constant / run-time scrutinee with a constant / run-time arm value
        ("f := (p: int) -> int { return match 3 { (p) => 1, => 2, } }; (f(3), f(4))", (1, 2)),
        ("f := (p: int) -> int { return match p { (3) => 1, => 2, } }; (f(3), f(4))", (1, 2)),
        ("f := (p: int, q: int) -> int { return match p { (q) => 1, => 2, } }; (f(3, 3), f(3, 4))", (1, 2)),
        ("m := mut 3; k := 3; r := match k { (*m) => 1, => 2, }; m = 4; r2 := match k { (*m) => 1, => 2, }; (r, r2)", (1, 2)),
        ("f := (xs: [int]) -> int { return match [2, 3] { (xs[1:]) => 1, => 2, } }; (f([1, 2, 3]), f([1, 2]))", (1, 2)),
        ("f := (p: int) -> int { return match struct{a := 1} { (struct{a := p}) => 1, => 2, } }; (f(1), f(2))", (1, 2)),
        ("f := (p: int) -> int { k := 3; return match k { (p) => 1, (3) => 5, => 2, } }; (f(3), f(4))", (1, 5)),
        ("k := (1, 2.5); f := (p: float) -> int { return match k { ((1, p)) => 1, => 2, } }; (f(2.5), f(0.5))", (1, 2)),
        ("f := (p: float) -> int { return match 0.0 / 0.0 { (p) => 1, => 2, } }; f(0.0 / 0.0)", 2),
    ]
    for i, (p, e) in enumerate(fixed):
        out.append(Case(f"eq/fixed/{i}", p, e))
        if not p.startswith("match") and ";" not in p:
            out.append(Case(f"eq/fixed/rt/{i}", f"f := (u: int) -> bool {{ return {p} }}; f(0)", e))
    return out


def fam_eq_array(tier, seed, extra=()):
    """equality by content for arrays regardless of provenance / stored element type"""
    # (expression producing [1, 2] , description)
    prods_12 = [
        ("[1, 2]", "literal"), ("[1] + [2]", "concatenation"), ("[0, 1, 2][1:]", "slice"), ("[1, 2]~ $]", "collect"),
        ("([1, 2, 3.5]~ \\ (x: int | float) -> bool { return match x { i: int => true, => false, } }).0",
         "partition"),
        ("[1, 2, 3.5]~ ? int $]", "type filter + collect"),
        ("[1, 2.5, 2]~ ? (x: int | float) -> bool { return x == 1 || x == 2 } $]", "filter + collect"),
        ("[2, 4]~ @ (x: int) -> int { return x / 2 } $]", "map + collect"),
        ("[1; 1] + [2; 1]", "repeat + concatenation"), ("[] + [1, 2]", "empty + literal"),
        ("([1, 2, \"s\"]~ \\ (x: int | string) -> bool { return match x { i: int => true, => false, } }).0", "partition of int|string"),
        ("([1, 2, 2.5]~ \\ (x: int | float) -> bool { return match x { i: int => true, => false, } }).0", "partition of int|float"),
        ("[1, 2, true][:2]", "slice of int|bool array"), ("[1, 2, ()][0:2]", "slice of int|() array"),
        ("[1.5, 1, 2][1:]", "slice of a wider-typed array"),
    ]
    out = []
    k = 0
    for (e1, d1) in prods_12:
        for (e2, d2) in prods_12:
            out.append(Case(f"arr/12/{k}", f"x := {e1}; y := {e2}; (x == y, x != y)", (True, False), what=f"{d1} vs {d2}"))
            out.append(Case(f"arr/12/rt/{k}", f"f := (u: int) -> (bool, bool) {{ x := {e1}; y := {e2}; return (x == y, x != y) }}; f(0)",
                            (True, False), what=f"{d1} vs {d2} (run time)"))
            k += 1
    empties = [("[]", "literal"), ("[0; 0]", "repeat 0"), ("[1][1:]", "slice"), ("[1, 2][5:]", "slice past end"),
               ("[1.5]~ ? int $]", "type filter"), ("[]~ $]", "collect"), ('["a"; 0]', "repeat of string 0"),
               ("([1]~ \\ (x: int) -> bool { return true }).1", "partition rest")]
    for (e1, d1) in empties:
        for (e2, d2) in empties:
            out.append(Case(f"arr/empty/{k}", f"x := {e1}; y := {e2}; (x == y, x != y)", (True, False), what=f"{d1} vs {d2}"))
            k += 1
    neq = [("[1, 2]", "[1, 3]"), ("[1, 2]", "[1]"), ("[1, 2]", "[1, 2, 3]"), ("[1, 2]", "[2, 1]"), ("[1]", "[1.0]"),
           ("[[1], [2]]", "[[1], [3]]"), ("[]", "[()]"), ('["a"]', '["b"]')]
    for a, b in neq:
        out.append(Case(f"arr/neq/{k}", f"({a} == {b}, {a} != {b}, {b} == {a})", (False, True, False)))
        k += 1
    nested = [("[[1], []]", "[[1], [0; 0]]"), ("([1, 2], 3)", "([1] + [2], 3)"),
              ("struct{a := []}", "struct{a := [0; 0]}")]
    for a, b in nested:
        out.append(Case(f"arr/nested/{k}", f"({a} == {b}, {b} == {a})", (True, True)))
        k += 1
    # arrays of MIXED content assembled from two parts, each part produced along its own route (so the stored element
    # types of the parts - and of the concatenation - differ while the content is the same)
    _NOTPAD = "(x: any) -> bool { return match x { p: struct{pad__: int} => false, => true, } }"

    def _part(how, es):
        body = ", ".join(es)
        if how == "lit":
            return "[" + body + "]"
        if how == "part":
            return "(([" + ", ".join(es + ["struct{pad__ := 0}"]) + "]~ \\ " + _NOTPAD + ").0)"
        if how == "filter":      # (a slice cannot be used: its static type is the element type - observation D5)
            return "([" + ", ".join(["struct{pad__ := 0}"] + es) + "]~ ? " + _NOTPAD + " $])"
        return "([" + body + "]~ $])"
    rnd = random.Random(97 + seed)
    for content in ([["1", "2.5", "2.5"], ["1", '"s"'], ["2.5", "1", "1"]] + ([] if tier == "quick" else [["true", "1", "1.5"], ["1", "2", "2.5", '"s"']])):
        whole = ", ".join(content)

        def _routes(tag):
            """(setup statements, expression) pairs; `tag` keeps the names of two routes used in one program apart"""
            rs = []
            for cut in range(len(content) + 1):
                # `wide`: the part is cut out of the WHOLE content by position with `\\`, so its stored element type is the union
                # of all the element types although it holds only some of them
                nm = f"w{tag}{cut}"
                setup = (f"c{nm} := mut 0; {nm} := [{whole}]~ \\ (x: any) -> bool {{ c{nm} += 1; return *c{nm} <= {cut} }}; ")
                for h1 in ("lit", "part", "filter", "collect", "wide"):
                    for h2 in ("lit", "part", "filter", "collect", "wide"):
                        p1 = f"{nm}.0" if h1 == "wide" else _part(h1, content[:cut])
                        p2 = f"{nm}.1" if h2 == "wide" else _part(h2, content[cut:])
                        rs.append((setup if "wide" in (h1, h2) else "", f"({p1} + {p2})"))
            return rs
        lit = "[" + ", ".join(content) + "]"
        ra, rb = _routes("a"), _routes("b")
        for i, (s1, r1) in enumerate(ra):
            others = [("", lit)] + rnd.sample(rb, 3 if tier == "quick" else 8)
            for s2, r2 in others:
                out.append(Case(f"arr/mixed/{k}", f"f := (u: int) -> (bool, bool, bool) {{ {s1}{s2}x := {r1}; y := {r2}; return (x == y, y == x, x != y) }}; f(0)",
                                (True, True, False), what=f"same mixed content {lit} along two routes"))
                k += 1
    out.append(Case(f"arr/match/{k}", "match [1] + [2] { ([1, 2]) => 1, => 2, }", 1))
    out.append(Case(f"arr/match/{k + 1}", "match [1.5, 1, 2][1:] { ([1, 2]) => 1, => 2, }", 1))
    return out


def py_slice(seq, start, stop, step):
    if step == 0:
        return seq[0:0]
    return seq[slice(start, stop, step)]


def fam_index(tier, seed, extra=()):
    out = []
    seqs = [([], "[]"), ([10], "[10]"), ([10, 11, 12], "[10, 11, 12]"), (list(range(7)), "[0, 1, 2, 3, 4, 5, 6]")]
    strs = ["", "a", "aé€", "\U0001f600xé", "hello wörld"]
    idx = [0, 1, 2, 3, 6, 7, 8, -1, -2, -3, -4, -7, -8, 63, 64, MAX, MIN, MIN + 1, 1 << 32, -(1 << 32), (1 << 32) + 1]
    idx += [e[0] for e in extra if e and isinstance(e[0], int)]
    k = 0
    for (py, lit) in seqs:
        n = len(py)
        out.append(Case(f"len/arr/{k}", f"std.len({lit})", n, mode="std"))
        out.append(Case(f"len/arr/rt/{k}", f"f := (s: [int]) -> int {{ return std.len(s) }}; f({lit})", n, mode="std"))
        for i in idx:
            exp = py[i] if -n <= i < n else Err(E_INDEX)
            out.append(Case(f"at/arr/folded/{k}", f"{lit}[i]", exp, {"i": i}, what=f"{lit}[{i}]"))
            out.append(Case(f"at/arr/runtime/{k}", f"f := (s: [int], j: int) -> int {{ return s[j] }}; f({lit}, i)", exp,
                            {"i": i}, what=f"{lit}[{i}] at run time"))
            k += 1
    for s in strs:
        chars = list(s)
        n = len(chars)
        lit = '"' + s + '"'
        out.append(Case(f"len/str/{k}", f"std.len({lit})", n, mode="std"))
        out.append(Case(f"len/str/rt/{k}", f"f := (s: string) -> int {{ return std.len(s) }}; f({lit})", n, mode="std"))
        for i in idx:
            exp = chars[i] if -n <= i < n else Err(E_INDEX)
            out.append(Case(f"at/str/folded/{k}", f"{lit}[i]", exp, {"i": i}, what=f"{lit}[{i}]"))
            out.append(Case(f"at/str/runtime/{k}", f"f := (s: string, j: int) -> string {{ return s[j] }}; f({lit}, i)",
                            exp, {"i": i}))
            k += 1
        # consistency of len and indexing
        if n:
            out.append(Case(f"len/at/{k}", f"s := {lit}; s[std.len(s) - 1] == s[-1]", True, mode="std"))
    # sequences whose static type is a union
    out.append(Case("at/union/0", "f := (s: string | [int], i: int) -> any { return s[i] }; (f(\"héllo\", 1), f([1, 2, 3], 1), f(\"héllo\", 0 - 1), f([1, 2, 3], 0 - 3))",
                    ("é", 2, "o", 1)))
    out.append(Case("at/union/1", "f := (s: [int] | [float], i: int) -> any { return s[i] }; (f([1, 2], 1), f([1.5], 0))", (2, 1.5)))
    out.append(Case("at/union/2", "f := (s: string | [int] | [string]) -> any { return s[0] }; (f(\"ab\"), f([7]), f([\"x\"]))", ("a", 7, "x")))
    out.append(Case("at/union/err", "f := (s: string | [int], i: int) -> any { return s[i] }; f(\"ab\", 2)", Err(E_INDEX)))
    out.append(Case("slice/union/0", "f := (s: string | [int]) -> any { return s[1:] }; (f(\"héllo\"), f([1, 2, 3]))", ("éllo", [2, 3])))
    out.append(Case("len/union/0", "f := (s: string | [int]) -> int { return std.len(s) }; (f(\"héllo\"), f([1, 2, 3]))", (5, 3), mode="std"))
    return out + literal_index_cases()


def fam_slice(tier, seed, extra=()):
    out = []
    seqs = [([], "[]"), ([10], "[10]"), ([10, 11, 12], "[10, 11, 12]"), (list(range(7)), "[0, 1, 2, 3, 4, 5, 6]")]
    strs = ["", "aé€", "héllo wörld"]
    vals = [None, 0, 1, 2, 3, 5, 7, 8, -1, -2, -3, -7, -8, MAX, MIN, 1 << 40, -(1 << 40)]
    steps = [None, 1, 2, 3, -1, -2, -3, 0, 7, -7, MAX, MIN]
    rnd = random.Random(seed + 99)
    combos = []
    for st in vals:
        for sp in vals:
            for se in steps:
                combos.append((st, sp, se))
    if tier == "quick":
        core_v = [None, 0, 1, -1, 2, -2, 3, -3, 7, -7, MIN, MAX]
        core_s = [None, 1, -1, 2, -2, 0]
        core = [(a, b, c) for a in core_v for b in core_v for c in core_s]
        combos = core + rnd.sample(combos, 300)
    k = 0

    def txt(st, sp, se, dyn):
        def e(name, v):
            return "" if v is None else name
        s = f"{e('st', st)}:{e('sp', sp)}"
        if se is not None or dyn:
            s += f":{e('se', se)}"
        return s

    for (py, lit) in seqs:
        for (st, sp, se) in combos:
            exp = py_slice(py, st, sp, se)
            vs = {n: v for n, v in (("st", st), ("sp", sp), ("se", se)) if v is not None}
            out.append(Case(f"slice/arr/folded/{k}", f"{lit}[{txt(st, sp, se, False)}]", exp, vs,
                            what=f"{lit}[{st}:{sp}:{se}]"))
            params = ", ".join(["s: [int]"] + [f"{n}: int" for n in vs])
            args = ", ".join([lit] + list(vs))
            out.append(Case(f"slice/arr/runtime/{k}",
                            f"f := ({params}) -> any {{ return s[{txt(st, sp, se, False)}] }}; f({args})", exp, vs))
            k += 1
    for s in strs:
        chars = list(s)
        lit = '"' + s + '"'
        for (st, sp, se) in (combos if tier == "thorough" else combos[:200]):
            exp = "".join(py_slice(chars, st, sp, se))
            vs = {n: v for n, v in (("st", st), ("sp", sp), ("se", se)) if v is not None}
            out.append(Case(f"slice/str/folded/{k}", f"{lit}[{txt(st, sp, se, False)}]", exp, vs,
                            what=f"{lit}[{st}:{sp}:{se}]"))
            k += 1
    # (len of / indexing into an array slice is rejected by the checker: the static type of an array
    #  slice is its ELEMENT type — observation D5 in DESIGN — so that consistency is checked on strings)
    out.append(Case("slice/len", "s := \"0123456\"; std.len(s[1:-1:2]) == 3 && s[1:-1:2][2] == s[5]", True, mode="std"))
    # the kind of the result follows the VALUE, not the static type of the operand
    out.append(Case("slice/union_operand", "f := (s: string | [int]) -> any { return s[1:] }; (f(\"abc\"), f([1, 2, 3]))", ("bc", [2, 3])))
    out.append(Case("slice/union_operand_step", "f := (s: [int] | string, k: int) -> any { return s[::k] }; (f(\"abcd\", 2), f([1, 2, 3, 4], 0 - 1))", ("ac", [4, 3, 2, 1])))
    out.append(Case("slice/any_array_operand", "f := (s: [any] | string) -> any { return s[:1] }; (f([1.5, \"x\"]), f(\"xy\"))", ([1.5], "x")))
    out.append(Case("slice/union_in_closure", "mk := (s: string | [int]) -> () -> any { return () -> any { return s[1:2] } }; (mk(\"abc\")(), mk([7, 8, 9])())", ("b", [8])))
    return out


# -- evaluation order / control flow probes: a log cell records the order of evaluation --------
PRE = ("log := mut 0; "
       "t := (k: int) -> int { log = *log * 10 + k; return k }; "
       "tf := (k: int, v: float) -> float { log = *log * 10 + k; return v }; "
       "tb := (k: int, v: bool) -> bool { log = *log * 10 + k; return v }; ")


def fam_order(tier, seed, extra=()):
    out = []
    k = 0
    for op in ("+", "-", "*", "/", "%", "**", "<<", ">>", "&", "|", "^", "<", "<=", ">", ">=", "==", "!="):
        exp = int_op(op, 5, 2)
        out.append(Case(f"order/bin/{k}", PRE + f"r := t(5) {op} t(2); (r, *log)", (exp, 52), what=f"t(5) {op} t(2)"))
        # inside a function body (run-time path)
        out.append(Case(f"order/bin/fn/{k}", PRE + f"f := () -> int {{ r := t(5) {op} t(2); return *log }}; f()", 52))
        k += 1
    for op in ("+", "-", "*", "/", "<", "=="):
        out.append(Case(f"order/fbin/{k}", PRE + f"r := tf(1, 5.0) {op} tf(2, 2.0); *log", 12))
        k += 1
    # nested: left operand fully before right operand
    out.append(Case("order/nested/0", PRE + "r := (t(1) + t(2)) * (t(3) - t(4)); (r, *log)", (-3, 1234)))
    out.append(Case("order/nested/1", PRE + "r := t(1) + t(2) * t(3); (r, *log)", (7, 123)))
    out.append(Case("order/nested/2", PRE + "r := t(2) ** t(3) ** t(2); *log", 232))
    # error in lhs: rhs not evaluated
    out.append(Case("order/lhs_error", PRE + "z := 0; f := () -> int { return (t(1) / t(0)) + t(3) }; f()", Err(E_ZDIV)))
    # short circuit
    for lv in (True, False):
        for rv in (True, False):
            l, r = str(lv).lower(), str(rv).lower()
            out.append(Case(f"order/and/{l}{r}", PRE + f"r := tb(1, {l}) && tb(2, {r}); (r, *log)",
                            (lv and rv, 12 if lv else 1)))
            out.append(Case(f"order/or/{l}{r}", PRE + f"r := tb(1, {l}) || tb(2, {r}); (r, *log)",
                            (lv or rv, 1 if lv else 12)))
            out.append(Case(f"order/and/fn/{l}{r}", PRE + f"f := (a: bool, b: bool) -> int {{ r := tb(1, a) && tb(2, b); return *log }}; f({l}, {r})",
                            12 if lv else 1))
            out.append(Case(f"order/or/fn/{l}{r}", PRE + f"f := (a: bool, b: bool) -> int {{ r := tb(1, a) || tb(2, b); return *log }}; f({l}, {r})",
                            1 if lv else 12))
    out.append(Case("order/and/chain", PRE + "r := tb(1, true) && tb(2, false) && tb(3, true); (r, *log)", (False, 12)))
    out.append(Case("order/or/chain", PRE + "r := tb(1, false) || tb(2, true) || tb(3, true); (r, *log)", (True, 12)))
    out.append(Case("order/and/const_false", PRE + "r := false && tb(2, true); (r, *log)", (False, 0)))
    out.append(Case("order/or/const_true", PRE + "r := true || tb(2, true); (r, *log)", (True, 0)))
    out.append(Case("order/and/const_true", PRE + "r := true && tb(2, false); (r, *log)", (False, 2)))
    # a constant RIGHT operand never removes the (effectful) left operand
    out.append(Case("order/and/rhs_const_false", PRE + "r := tb(1, true) && false; (r, *log)", (False, 1)))
    out.append(Case("order/or/rhs_const_true", PRE + "r := tb(1, false) || true; (r, *log)", (True, 1)))
    out.append(Case("order/and/rhs_const_true", PRE + "r := tb(1, true) && true; (r, *log)", (True, 1)))
    out.append(Case("order/or/rhs_const_false", PRE + "r := tb(1, false) || false; (r, *log)", (False, 1)))
    out.append(Case("order/and/rhs_folded_false", PRE + "v := 0; r := tb(1, true) && v > 0; (r, *log)", (False, 1)))
    out.append(Case("order/and/rhs_const_false/fn", PRE + "f := () -> int { r := tb(1, true) && false; return *log }; f()", 1))
    out.append(Case("order/or/rhs_const_true/fn", PRE + "f := () -> int { r := tb(1, false) || true; return *log }; f()", 1))
    # constant operands never remove an effectful sibling of any operator
    out.append(Case("order/mul_zero", PRE + "r := t(1) * 0 + 0 * t(2) + (t(3) & 0); (r, *log)", (0, 123)))
    out.append(Case("order/add_zero", PRE + "r := t(5) + 0 - 0 + t(2) * 1; (r, *log)", (7, 52)))
    # a constant that makes the result independent of the other operand never removes that operand's effects
    out.append(Case("order/repeat_zero", PRE + "r := [t(7); 0]; (r, *log)", ([], 7)))
    out.append(Case("order/repeat_zero_folded_len", PRE + "n := 3 - 3; r := [t(7); n]; (r, *log)", ([], 7)))
    out.append(Case("order/repeat_zero/fn", PRE + "f := () -> int { r := [t(7); 0]; return *log }; f()", 7))
    out.append(Case("order/repeat_zero_captured_len", PRE + "mk := (n: int) -> () -> int { return () -> int { r := [t(7); n]; return 0 } }; mk(0)(); *log", 7))
    out.append(Case("order/slice_empty", PRE + "r := [t(1), t(2)][0:0]; (r, *log)", ([], 12)))
    out.append(Case("order/slice_step_zero", PRE + "r := [t(1), t(2)][::0]; (r, *log)", ([], 12)))
    out.append(Case("order/shift_zero", PRE + "r := (t(1) << 0) + (0 >> t(2)) + (t(3) ** 0); (r, *log)", (2, 123)))
    out.append(Case("order/xor_self_and_all", PRE + "r := (t(5) | (0 - 1)) + (t(6) & 0) + (t(7) % 1); (r, *log)", (-1, 567)))
    out.append(Case("order/compare_constant_result", PRE + "r := (t(1) >= (0 - 9223372036854775807 - 1)) && (t(2) <= 9223372036854775807); (r, *log)", (True, 12)))
    out.append(Case("order/tuple_access_drops_nothing", PRE + "r := (t(1), t(2), t(3)).0; (r, *log)", (1, 123)))
    out.append(Case("order/field_access_drops_nothing", PRE + "r := struct{a := t(1), b := t(2)}.b; (r, *log)", (2, 12)))
    out.append(Case("order/if_same_branches", PRE + "r := if tb(1, true) 5 else 5; (r, *log)", (5, 1)))
    out.append(Case("order/match_single_arm", PRE + "r := match t(4) { => 5, }; (r, *log)", (5, 4)))
    # comparing two container literals evaluates ALL elements of the left one, then all of the right one
    for op, exp in (("==", False), ("!=", True)):
        out.append(Case(f"order/tuple_literals/{op}", PRE + f"r := (t(1), t(2)) {op} (t(3), t(4)); (r, *log)", (exp, 1234)))
        out.append(Case(f"order/tuple_literals/fn/{op}", PRE + f"f := () -> int {{ r := (t(1), t(2)) {op} (t(3), t(4)); return *log }}; f()", 1234))
        out.append(Case(f"order/array_literals/{op}", PRE + f"r := [t(1), t(2)] {op} [t(3), t(4)]; (r, *log)", (exp, 1234)))
        out.append(Case(f"order/struct_literals/{op}", PRE + f"r := struct{{a := t(1), b := t(2)}} {op} struct{{a := t(3), b := t(4)}}; (r, *log)", (exp, 1234)))
        out.append(Case(f"order/nested_literals/{op}", PRE + f"r := (t(1), [t(2)]) {op} (t(1), [t(3)]); (r, *log)", (exp, 1213)))
    out.append(Case("order/tuple_literals/equal_prefix", PRE + "r := (t(1), t(2), t(3)) == (t(1), t(5), t(3)); (r, *log)", (False, 123153)))
    # an operand is evaluated exactly once whatever the constant on the other side is (no `x ** 2 -> x * x`)
    k = 0
    for op in ("+", "-", "*", "/", "%", "**", "<<", ">>", "&", "|", "^", "<", "<=", ">", ">=", "==", "!="):
        for c in (0, 1, 2, 3):
            for form in (f"t(5) {op} {c}", f"{c} {op} t(5)"):
                try:
                    exp = int_op(op, *( (5, c) if form.startswith("t(") else (c, 5) ))
                except Exception:
                    continue
                expv = exp if isinstance(exp, Err) else (exp, 5)
                out.append(Case(f"order/once/{k}", PRE + f"f := () -> any {{ r := {form}; return (r, *log) }}; f()",
                                ErrOrEarly(exp.msg) if isinstance(exp, Err) else expv, what=form))
                k += 1
    # a discarded statement keeps its error: `{ a / b; 7 }` fails when b is 0
    for j, (stmt, err) in enumerate([("a / b", E_ZDIV), ("a % b", E_ZMOD), ("a << (b + 64)", E_SHIFT), ("a >> (b - 1)", E_SHIFT),
                                     ("a ** (b - 1)", E_NEGEXP), ("[a][b + 1]", E_INDEX), ("[a; b - 1]", E_NEGLEN),
                                     ("(a / b, 1)", E_ZDIV), ("[a % b]", E_ZMOD), ("-(a / b)", E_ZDIV), ("a / b == 0", E_ZDIV)]):
        out.append(Case(f"order/discarded_error/{j}", f"f := (a: int, b: int) -> int {{ if a == 7 {{ {stmt}; return 7 }} return 0 }}; f(7, 0)", Err(err)))
        out.append(Case(f"order/discarded_error/block/{j}", f"f := (a: int, b: int) -> int {{ x := {{ {stmt}; 7 }}; return x }}; f(7, 0)", Err(err)))
        out.append(Case(f"order/discarded_error/loop/{j}", f"f := (a: int, b: int) -> int {{ i := mut 0; while *i < 1 {{ i += 1; {stmt}; 0 }}; return 7 }}; f(7, 0)", Err(err)))
        out.append(Case(f"order/discarded_error/ok/{j}", f"f := (a: int, b: int) -> int {{ if a == 7 {{ {stmt.replace('b', '(b + 1)') if False else stmt}; return 7 }} return 0 }}; f(0, 0)", 0))
    # assignment: target, then value
    out.append(Case("order/assign", PRE + "c := mut 0; pick := (k: int) -> mut int { log = *log * 10 + k; return c }; "
                    "r := (pick(1) = t(2)); (r, *c, *log)", (2, 2, 12)))
    out.append(Case("order/assign_add", PRE + "c := mut 5; pick := (k: int) -> mut int { log = *log * 10 + k; return c }; "
                    "r := (pick(1) += t(2)); (r, *c, *log)", (7, 7, 12)))
    # call: function, then arguments left to right
    out.append(Case("order/call", PRE + "g := (a: int, b: int, c: int) -> int { return a * 100 + b * 10 + c }; "
                    "getg := (k: int) -> (int, int, int) -> int { log = *log * 10 + k; return g }; "
                    "r := getg(1)(t(2), t(3), t(4)); (r, *log)", (234, 1234)))
    # array / tuple / struct elements, slice bounds, array repeat
    out.append(Case("order/array", PRE + "r := [t(1), t(2), t(3)]; (r, *log)", ([1, 2, 3], 123)))
    out.append(Case("order/tuple", PRE + "r := (t(1), t(2), t(3)); (r, *log)", ((1, 2, 3), 123)))
    out.append(Case("order/struct", PRE + "r := struct{a := t(1), b := t(2)}; (r.a, r.b, *log)", (1, 2, 12)))
    out.append(Case("order/slice", PRE + "r := [0, 1, 2, 3, 4, 5][t(1):t(5):t(2)]; (r, *log)", ([1, 3], 152)))
    out.append(Case("order/repeat", PRE + "r := [t(7); t(2)]; (r, *log)", ([7, 7], 72)))
    out.append(Case("order/index", PRE + "pickarr := (k: int) -> [int] { log = *log * 10 + k; return [5, 6, 7] }; "
                    "r := pickarr(1)[t(2)]; (r, *log)", (7, 12)))
    out.append(Case("order/reduce", PRE + "add := (acc: int, cur: int) -> int { return acc + cur }; "
                    "pickf := (k: int) -> (int, int) -> int { log = *log * 10 + k; return add }; "
                    "pickit := (k: int) -> () -> (bool, int) { log = *log * 10 + k; return [1, 2, 3]~ }; "
                    "r := pickit(1) $t(2) pickf(3); (r, *log)", (8, 123)))
    out.append(Case("order/struct3", PRE + "r := struct{c := t(1), a := t(2), b := t(3)}; *log", 123))
    out.append(Case("order/nested_array", PRE + "r := [[t(1), t(2)], [t(3)], [t(4); t(1)]]; *log", 12341))
    out.append(Case("order/call_nested", PRE + "g := (a: int, b: int) -> int { return a - b }; r := g(g(t(1), t(2)), g(t(3), t(4))); (r, *log)", (0, 1234)))
    out.append(Case("order/map_filter_fn", PRE + "arr := [1, 2, 3]~ @ (x: int) -> int { return t(x) } $]; (arr, *log)", ([1, 2, 3], 123)))
    out.append(Case("order/compound_rhs_then_read", PRE + "c := mut 1; setc := (k: int) -> int { c = 10; return t(k) }; r := (c += setc(5)); (r, *c, *log)", (15, 15, 5)))
    out.append(Case("order/index_literal", PRE + "r := [t(1), t(2), t(3)][1]; (r, *log)", (2, 123)))
    out.append(Case("order/index_literal_neg", PRE + "r := [t(1), t(2), t(3)][0 - 1]; (r, *log)", (3, 123)))
    out.append(Case("order/index_literal/fn", PRE + "f := () -> int { r := [t(1), t(2), t(3)][0]; return *log }; f()", 123))
    out.append(Case("order/tuple_access_literal", PRE + "r := (t(1), t(2), t(3)).1; (r, *log)", (2, 123)))
    out.append(Case("order/field_access_literal", PRE + "r := struct{a := t(1), b := t(2)}.a; (r, *log)", (1, 12)))
    out.append(Case("order/slice_literal", PRE + "r := [t(1), t(2), t(3)][1:]; (r, *log)", ([2, 3], 123)))
    out.append(Case("order/compound_target_once", PRE + "cells := [mut 10, mut 20]; nxt := (k: int) -> int { log = *log * 10 + k; return k - 1 }; "
                    "r := (cells[nxt(1)] -= t(2)); (r, *cells[0], *cells[1], *log)", (8, 8, 20, 12)))
    out.append(Case("order/discarded_statements", PRE + "(t(1), t(2)); [t(3), t(4)]; t(5) + 0; struct{a := t(6)}; (t(7), 0).1; *log", 1234567))
    out.append(Case("order/discarded_statements/fn", PRE + "f := () -> int { (t(1), t(2)); [t(3)]; t(4) * 0; { (t(5), 1) }; return *log }; f()", 12345))
    out.append(Case("order/discarded_statements/mod", PRE + "m := mod { (t(1), t(2)); [t(3)] }; *log", 123))
    out.append(Case("order/discarded_in_branch", PRE + "f := (b: bool) -> int { if b { (t(1), t(2)); 0 } else { [t(3)]; 0 }; return *log }; (f(true), f(false))", (12, 123)))
    # only the chosen branch
    out.append(Case("order/if/true", PRE + "r := if tb(1, true) t(2) else t(3); (r, *log)", (2, 12)))
    out.append(Case("order/if/false", PRE + "r := if tb(1, false) t(2) else t(3); (r, *log)", (3, 13)))
    out.append(Case("order/ifset/match", PRE + "r := if x: int = t(1) t(2) else t(3); (r, *log)", (2, 12)))
    out.append(Case("order/ifset/nomatch", PRE + "v := (k: int) -> int | float { log = *log * 10 + k; return 1.5 }; "
                    "r := if x: int = v(1) t(2) else t(3); (r, *log)", (3, 13)))
    # a branch that is a bare literal never makes the other (effectful) branch run: no `if c x else false` -> `c & x`
    for cv in (True, False):
        c = str(cv).lower()
        for lv in (True, False):
            l = str(lv).lower()
            out.append(Case(f"order/if/lit_else/{c}{l}", PRE + f"r := if tb(1, {c}) tb(2, true) else {l}; (r, *log)",
                            (True if cv else lv, 12 if cv else 1)))
            out.append(Case(f"order/if/lit_then/{c}{l}", PRE + f"r := if tb(1, {c}) {l} else tb(3, true); (r, *log)",
                            (lv if cv else True, 1 if cv else 13)))
            out.append(Case(f"order/if/lit_else/fn/{c}{l}", PRE + f"f := (b: bool) -> (bool, int) {{ r := if b tb(2, false) else {l}; return (r, *log) }}; f({c})",
                            (False if cv else lv, 2 if cv else 0)))
            out.append(Case(f"order/if/lit_then/fn/{c}{l}", PRE + f"f := (b: bool) -> (bool, int) {{ r := if b {l} else tb(3, false); return (r, *log) }}; f({c})",
                            (lv if cv else False, 0 if cv else 3)))
        for n in (0, 1):
            out.append(Case(f"order/if/int_lit_else/{c}{n}", PRE + f"r := if tb(1, {c}) t(2) else {n}; (r, *log)", (2 if cv else n, 12 if cv else 1)))
            out.append(Case(f"order/if/int_lit_then/{c}{n}", PRE + f"r := if tb(1, {c}) {n} else t(3); (r, *log)", (n if cv else 3, 1 if cv else 13)))
        out.append(Case(f"order/ifset/lit_else/{c}", PRE + "v := (k: int, b: bool) -> int | float { log = *log * 10 + k; if b { return 1 } return 1.5 }; "
                        f"r := if x: int = v(1, {c}) tb(2, true) else false; (r, *log)", (cv, 12 if cv else 1)))
        out.append(Case(f"order/match/lit_arm/{c}", PRE + f"r := match tb(1, {c}) {{ (true) => tb(2, true), => false, }}; (r, *log)", (cv, 12 if cv else 1)))
    # an error in one element stops the evaluation of the elements after it (REPL style: the log cell survives the error)
    pre_steps = PRE + "z := mut 0; g := (a: int, b: int, c: int) -> int { return a + b + c }"
    for k, (expr, exp_log) in enumerate([
        ("[t(1), t(2) / *z, t(3)]", 12), ("(t(1), t(2) / *z, t(3))", 12), ("struct{a := t(1), b := t(2) / *z, c := t(3)}", 12),
        ("struct{a := t(1) / *z, b := t(2)}", 1), ("g(t(1), t(2) / *z, t(3))", 12), ("[0, 1, 2, 3][t(1):t(2) / *z:t(3)]", 12),
        ("[0, 1, 2, 3][t(1) / *z:t(2)]", 1), ("[t(1) / *z; t(2)]", 1), ("[t(1); t(2) / *z]", 12), ("t(1) / *z + t(2)", 1),
        ("(t(1) + t(2) / *z) * t(3)", 12), ("[t(1), t(2)][t(3) / *z]", 123), ("tb(1, true) && (t(2) / *z > 0) && tb(3, true)", 12),
        ("[[t(1)], [t(2) / *z], [t(3)]]", 12), ("(t(1), (t(2), t(3) / *z), t(4))", 123),
    ]):
        out.append(Case(f"order/error_stops/{k}", STEP_SEP.join([pre_steps, expr, "*log"]), Steps([None, Err(E_ZDIV), exp_log]), {}, "steps",
                        what=f"an error inside `{expr}` stops the evaluation"))
        out.append(Case(f"order/error_stops/fn/{k}", STEP_SEP.join([pre_steps + f"; f := () -> any {{ return {expr} }}", "f()", "*log"]),
                        Steps([None, Err(E_ZDIV), exp_log]), {}, "steps"))
    # match: scrutinee once, candidates top to bottom until the first match, only the chosen arm
    out.append(Case("order/match/0", PRE + "r := match t(2) { (t(1)) => t(7), (t(2)) => t(8), (t(3)) => t(6), => t(9), }; (r, *log)",
                    (8, 2128)))
    out.append(Case("order/match/1", PRE + "r := match t(5) { (t(1)) => t(7), (t(2)) => t(7), x: int => t(8), => t(9), }; (r, *log)",
                    (8, 5128)))
    out.append(Case("order/match/2", PRE + "r := match t(1) { (t(1)) => t(7), (t(2)) => t(8), => t(9), }; (r, *log)", (7, 117)))
    # several candidates in ONE value arm (grammar: values = expr ("," expr)*): evaluated left to right until the first equal one
    out.append(Case("order/match/multi/0", PRE + "r := match t(2) { t(1), t(2), t(3) => t(7), => t(9), }; (r, *log)", (7, 2127)))
    out.append(Case("order/match/multi/1", PRE + "r := match t(1) { t(1), t(2) => t(7), => t(9), }; (r, *log)", (7, 117)))
    out.append(Case("order/match/multi/2", PRE + "r := match t(5) { t(1), t(2) => t(7), t(3), t(5), t(6) => t(8), => t(9), }; (r, *log)", (8, 512358)))
    out.append(Case("order/match/multi/3", PRE + "r := match t(4) { (t(1)), (t(2)) => t(7), => t(9), }; (r, *log)", (9, 4129)))
    out.append(Case("order/match/multi/4", PRE + "f := (a: int, b: int) -> (int, int) { r := match t(a) { t(1), t(b) => t(7), => t(9), }; return (r, *log) }; f(3, 3)", (7, 3137)))
    return out


def fam_control(tier, seed, extra=()):
    out = []
    c = lambda i, p, e, **kw: out.append(Case(f"ctl/{i}", p, e, **kw))
    c("if/0", "f := (b: bool) -> int { return if b 1 else 2 }; (f(true), f(false))", (1, 2))
    c("if/1", "f := (b: bool) -> int { if b { return 1 } return 2 }; (f(true), f(false))", (1, 2))
    c("if/novalue", "f := (b: bool) -> () | int { return if b 1 }; (f(true), f(false))", (1, None))
    c("ifset/0", "f := (v: int | float | string) -> int { return if x: int = v x + 1 else 0 - 1 }; (f(4), f(4.5), f(\"s\"))",
      (5, -1, -1))
    c("ifset/1", "f := (v: int | float) -> int { if x: float = v { return 1 } return 2 }; (f(4), f(4.5))", (2, 1))
    c("ifset/array", "f := (v: [int] | [float] | int) -> int { return if x: [int] = v std.len(x) else 0 - 1 }; (f([1, 2]), f([1.5]), f(3))",
      (2, -1, -1), mode="std")
    c("match/0", "f := (v: int | float | string) -> int { return match v { (1) => 10, (2) => 11, x: int => x, x: float => 20, => 30, } }; "
      "(f(1), f(2), f(3), f(2.5), f(\"a\"))", (10, 11, 3, 20, 30))
    # value arms with several candidates, and candidates written without parentheses (grammar: values = expr ("," expr)*)
    c("match/multi_candidates", "f := (v: int) -> int { return match v { (5) => 1, (6), (7) => 3, => 2, } }; (f(5), f(6), f(7), f(8))", (1, 3, 3, 2))
    c("match/multi_candidates_bare", "f := (v: int) -> int { return match v { 5 => 1, 6, 7 => 3, => 2, } }; (f(5), f(6), f(7), f(8))", (1, 3, 3, 2))
    c("match/bare_candidate", "f := (v: int) -> int { return match v { 5 => 1, => 2, } }; (f(5), f(6))", (1, 2))
    c("match/bare_candidate_expression", "f := (v: int, w: int) -> int { return match v { w + 1 => 1, w * 2, w - 1 => 3, => 2, } }; (f(5, 4), f(8, 4), f(3, 4), f(4, 4))", (1, 3, 3, 2))
    c("match/multi_candidates_strings", "f := (v: string) -> int { return match v { \"a\", \"b\" => 1, \"c\" => 2, => 0, } }; (f(\"a\"), f(\"b\"), f(\"c\"), f(\"d\"))", (1, 1, 2, 0))
    c("match/multi_candidates_literal_scrutinee", "a := match 6 { (6), (7) => 3, => 2, }; b := match 7 { (6), (7) => 3, => 2, }; c := match 8 { (6), (7) => 3, => 2, }; (a, b, c)", (3, 3, 2))
    c("match/first_wins", "f := (v: int) -> int { return match v { x: int => 1, (5) => 2, => 3, } }; f(5)", 1)
    c("match/value_first", "f := (v: int) -> int { return match v { (5) => 2, x: int => 1, } }; (f(5), f(6))", (2, 1))
    c("match/binding", "f := (v: int | string) -> int | string { return match v { x: int => x * 2, s: string => s + s, } }; (f(4), f(\"ab\"))",
      (8, "abab"))
    c("while/0", "i := mut 0; s := mut 0; while *i < 5 { i += 1; if *i == 2 { continue } if *i == 4 { break } s += *i }; (*i, *s)", (4, 4))
    c("loop/value", "i := mut 0; r := loop { i += 1; if *i > 3 { break } }; (r, *i)", (None, 4))
    c("loop/nested", "i := mut 0; n := mut 0; loop { i += 1; j := mut 0; loop { j += 1; if *j > 2 { break } n += 1 }; if *i >= 3 { break } }; (*i, *n)",
      (3, 6))
    c("loop/continue_nested", "i := mut 0; n := mut 0; while *i < 3 { i += 1; j := mut 0; while *j < 3 { j += 1; if *j == 2 { continue } n += 1 } }; *n", 6)
    c("loop/break_in_block", "i := mut 0; loop { { { i += 1; if *i == 3 { break } } } }; *i", 3)
    c("loop/break_in_match", "i := mut 0; loop { i += 1; match *i { (3) => { break }, => { continue }, } }; *i", 3)
    c("loop/break_in_ifset", "i := mut 0; loop { i += 1; if x: int = *i { if x == 4 { break } } }; *i", 4)
    c("for/0", "s := mut 0; for x in [1, 2, 3, 4]~ { if x == 2 { continue } if x == 4 { break } s += x }; *s", 4)
    c("for/nested", "s := mut 0; for x in [1, 2]~ { for y in [10, 20]~ { if y == 20 { break } s += x * y } }; *s", 30)
    c("whileset/0", "vals := [1, 2, 3.5, 4]; i := mut 0; s := mut 0; while x: int = vals[*i] { s += x; i += 1 }; (*s, *i)", (3, 2))
    c("return/nested", "f := (n: int) -> int { i := mut 0; loop { i += 1; { if *i == n { return *i * 10 } } }; return 0 }; f(3)", 30)
    c("return/in_loop_in_fn_in_loop", "r := mut 0; for x in [1, 2, 3]~ { g := (k: int) -> int { loop { return k }; return 0 }; r += g(x) }; *r", 6)
    c("return/inner_function", "f := () -> int { g := () -> int { return 1 }; x := g(); return x + 1 }; f()", 2)
    c("return/falls_off", "f := () { x := 1 }; f()", None)
    c("return/void", "f := (b: bool) -> () | int { if b { return } return 1 }; (f(true), f(false))", (None, 1))
    c("return/in_match", "f := (v: int) -> int { match v { (1) => { return 10 }, => { }, }; return 20 }; (f(1), f(2))", (10, 20))
    # placement rules: a function body is a boundary for break/continue, a loop is not one for return
    E_BRK, E_CNT = "BreakOutsideLoop", "ContinueOutsideLoop"
    c("place/break_top", "break", Err(E_BRK))
    c("place/continue_top", "continue", Err(E_CNT))
    c("place/break_in_fn_in_loop", "i := mut 0; loop { i += 1; f := () -> int { break; return 1 }; if *i > 2 { break } }; *i", Err(E_BRK))
    c("place/continue_in_fn_in_loop", "i := mut 0; while *i < 2 { i += 1; f := () -> int { continue; return 1 } }; *i", Err(E_CNT))
    c("place/break_in_fn_in_for", "for x in [1]~ { g := (k: int) -> int { if k > 0 { break } return k } }", Err(E_BRK))
    c("place/break_in_if_in_loop_ok", "i := mut 0; loop { if true { { break } } }; 7", 7)
    c("place/break_after_loop", "loop { break }; break", Err(E_BRK))
    c("place/break_in_fn_own_loop_ok", "i := mut 0; loop { i += 1; f := () -> int { loop { break }; return 1 }; i += f(); if *i > 3 { break } }; *i", 4)
    c("place/match_not_covered", "f := (v: int | float) -> int { return match v { x: int => 1, } }; f(1)", Err("MatchNotCovered"))
    c("place/match_covered_by_union", "f := (v: int | float) -> int { return match v { x: int => 1, y: float => 2, } }; (f(1), f(1.5))", (1, 2))
    c("match/type_before_value", "f := (v: int | string) -> string { return match v { s: string => s, i: int => \"int\", (0) => \"zero\", } }; (f(0), f(\"a\"))", ("int", "a"))
    c("match/catchall_before_value", "c := mut 0; bump := () -> int { c += 1; return 5 }; r := match 5 { => 1, (bump()) => 2, }; (r, *c)", (1, 0))
    c("ifset/union_type", "f := (v: int | float | string) -> int { return if x: int | float = v 1 else 2 }; (f(3), f(2.5), f(\"s\"))", (1, 1, 2))
    c("ifset/any_array", "f := (v: [int] | int) -> int { return if x: [any] = v 1 else 2 }; (f([1]), f([]), f(3))", (1, 1, 2), mode="std")
    c("ifset/empty_array", "f := (v: [int] | [float]) -> int { return if x: [int] = v 1 else 2 }; (f([]), f([1]), f([1.5]))", (1, 1, 2))
    c("whileset/union", "vals := [1, 2.5, \"s\", 4]; i := mut 0; while x: int | float = vals[*i] { i += 1 }; *i", 2)
    c("match/tuple_lengths", "f := (t: (int, int) | (int, int, int)) -> int { return match t { p: (int, int) => 2, q: (int, int, int) => 3, } }; (f((1, 2)), f((1, 2, 3)))", (2, 3))
    c("ifset/tuple_lengths", "f := (t: (int, int) | (int, int, int)) -> int { return if p: (int, int) = t 2 else 3 }; (f((1, 2)), f((1, 2, 3)))", (2, 3))
    c("match/array_of_union", "f := (v: [int | string]) -> int { return match v { a: [int] => 1, b: [string] => 2, c: [int | string] => 3, } }; (f([1]), f([\"a\"]), f([1, \"a\"]))", (1, 2, 3))
    c("place/match_array_union_not_covered", "f := (v: [int | string]) -> int { return match v { a: [int] => 1, b: [string] => 2, } }; f([1, \"a\"])",
      Err("MatchNotCovered"))
    c("loop/unconditional_break_nested", "n := mut 0; for x in [1, 2, 3]~ { loop { n += x; break } }; *n", 6)
    c("loop/unconditional_break_in_while", "i := mut 0; while *i < 3 { i += 1; loop { break } }; *i", 3)
    c("loop/unconditional_break_in_fn", "f := () -> int { loop { break }; return 5 }; f()", 5)
    c("loop/unconditional_continue_then_break", "i := mut 0; n := mut 0; loop { i += 1; if *i > 3 { break } loop { n += 1; if true { break } else { continue } } }; (*i, *n)", (4, 3))
    c("loop/take_first", "first := mut 0; n := mut 0; for a in [10, 20]~ { for x in [1, 2, 3]~ { first += x; break }; n += a }; (*first, *n)", (2, 30))
    c("loop/all_paths_diverge", "i := mut 0; r := mut 0; while *i < 3 { i += 1; loop { if *i == 2 { break } else { break } }; r += 1 }; *r", 3)
    c("if/dead_branch_not_folded", "f := (a: int) -> int { d := 0; if d != 0 { return a / d } return 0 }; f(7)", 0)
    c("if/dead_else_not_folded", "f := (a: int) -> int { d := 0; return if d == 0 { a } else { a % d } }; f(7)", 7)
    c("if/dead_branch_in_loop", "i := mut 0; s := mut 0; z := 0; while *i < 3 { i += 1; if z != 0 { s += 1 / z; continue } else { s += 1 } }; *s", 3)
    c("block/effect_then_constant", "n := mut 0; x := { n += 7; 5 }; (x, *n)", (5, 7))
    c("block/effect_then_captured_constant", "k := 42; n := mut 0; f := () -> int { return { n += 1; k } }; (f(), *n)", (42, 1))
    c("block/match_arm_blocks", "seen := mut 0; f := (v: int | float) -> int { return match v { x: int => { seen += 1; 100 }, => { seen += 10; 200 }, } }; (f(1), f(1.5), *seen)", (100, 200, 11))
    c("block/if_branch_blocks", "n := mut 0; f := (b: bool) -> int { return if b { n += 1; 10 } else { n += 2; 20 } }; (f(true), f(false), *n)", (10, 20, 3))
    c("block/constant_then_effect", "n := mut 0; x := { 5; n += 7 }; (x, *n)", (7, 7))
    c("while/continue_in_last_iteration", "i := mut 0; n := mut 0; while *i < 3 { i += 1; if *i == 3 { continue } n += 1 }; (*i, *n)", (3, 2))
    c("while/continue_every_iteration", "i := mut 0; while *i < 4 { i += 1; continue }; *i", 4)
    c("while/continue_nested_block_last", "i := mut 0; n := mut 0; while *i < 2 { i += 1; { if *i == 2 { continue } }; n += 1 }; (*i, *n)", (2, 1))
    c("while/index_guard", "arr := [1, 2, 3]; i := mut 0; s := mut 0; while *i < 3 { v := arr[*i]; i += 1; if v == 3 { continue } s += v }; *s", 3)
    c("while/condition_side_effect_count", "c := mut 0; i := mut 0; test := () -> bool { c += 1; return *i < 3 }; while test() { i += 1; if *i == 2 { continue } }; (*i, *c)", (3, 4))
    c("whileset/continue_last", "vals := [1, 2, 3.5]; i := mut 0; n := mut 0; while x: int = vals[*i] { i += 1; if x == 2 { continue } n += 1 }; (*i, *n)", (2, 1))
    c("for/continue_last", "n := mut 0; for x in [1, 2, 3]~ { if x == 3 { continue } n += x }; *n", 3)
    c("match/value_arm_array_provenance", "f := (v: any) -> int { return match v { ([]) => 0, ([1, 2]) => 12, => 99, } }; "
      "(f([0; 0]), f([1][1:]), f([1] + [2]), f([0, 1, 2][1:]), f([3]))", (0, 0, 12, 12, 99))
    c("match/value_arm_in_loop", "i := mut 0; loop { i += 1; done := match [*i; 0] { ([]) => true, => false, }; if done && *i >= 4 { break } if *i > 10 { break } }; *i", 4)
    c("match/value_arm_tuple", "f := (v: (int, [int])) -> int { return match v { ((1, [])) => 1, => 2, } }; (f((1, [0; 0])), f((1, [5])))", (1, 2))
    c("place/break_in_mod_in_loop", "i := mut 0; loop { i += 1; m := mod { if *i > 2 { break } }; if *i > 10 { break } }; *i", 3)
    c("place/continue_in_mod_in_loop", "i := mut 0; n := mut 0; while *i < 4 { i += 1; m := mod { if *i == 2 { continue } }; n += 1 }; (*i, *n)", (4, 3))
    c("place/return_in_mod_in_fn", "f := (x: int) -> int { m := mod { if x > 0 { return 1 } }; return 2 }; (f(1), f(0))", (1, 2))
    c("place/ifset_without_else_may_be_void", "f := (v: int | float) -> int { x := if n: int = v { n }; return match x { k: int => k, } }; f(1)", Err("MatchNotCovered"))
    c("place/ifset_without_else_void_value", "f := (v: int | float) -> any { x := if n: int = v { n }; return x }; (f(1), f(1.5))", (1, None))
    c("place/if_without_else_may_be_void", "f := (b: bool) -> int { x := if b { 1 }; return match x { k: int => k, } }; f(true)", Err("MatchNotCovered"))
    c("place/missing_return_in_ifset", "f := (v: int | float) -> int { if n: int = v { return n } }; f(1)", Err("MissingReturn"))
    c("place/missing_return_in_if", "f := (b: bool) -> int { if b { return 1 } }; f(true)", Err("MissingReturn"))
    c("block/value", "x := { 1; 2; 3 }; y := { }; (x, y)", (3, None))
    c("block/last_is_set", "x := { a := 5 }; x", 5)
    # if-set / while-set / match against struct, union and array patterns that are WIDER than the value's type
    nxt = ("i := mut 0; nxt := () -> struct{value: int, tag: string} | () { i += 1; if *i <= 3 { return struct{value := *i, tag := \"n\"} } return () }; s := mut 0; ")
    c("whileset/struct_width", nxt + "while n: struct{value: int} = nxt() { s += n.value }; (*s, *i)", (6, 4))
    c("whileset/struct_exact", nxt + "while n: struct{value: int, tag: string} = nxt() { s += n.value }; (*s, *i)", (6, 4))
    c("whileset/struct_empty_pattern", nxt + "while n: struct{} = nxt() { s += 1 }; (*s, *i)", (3, 4))
    c("whileset/struct_wider_field_type", nxt + "while n: struct{value: int | float} = nxt() { s += 1 }; (*s, *i)", (3, 4))
    c("whileset/struct_any_field", nxt + "while n: struct{tag: any} = nxt() { s += 1 }; (*s, *i)", (3, 4))
    c("ifset/struct_width", nxt + "if n: struct{value: int} = nxt() { s += n.value }; (*s, *i)", (1, 1))
    c("match/struct_width", nxt + "r := match nxt() { n: struct{value: int} => n.value, => 0 - 1, }; (r, *i)", (1, 1))
    c("whileset/struct_other_field", nxt + "while n: struct{other: int} = nxt() { s += 1 }; (*s, *i)", (0, 1))
    c("whileset/in_function", "f := () -> (int, int) { " + nxt + "while n: struct{value: int} = nxt() { s += n.value }; return (*s, *i) }; f()", (6, 4))
    c("whileset/array_wider", "vals := [[1], [2, 3], 4]; i := mut 0; n := mut 0; while a: [int | float] = vals[*i] { i += 1; n += 1 }; (*i, *n)", (2, 2))
    c("whileset/tuple_wider", "vals := [(1, 2), (3, 4), 5]; i := mut 0; while t: (int | float, any) = vals[*i] { i += 1 }; *i", 2)
    c("whileset/function_pattern", "g := (x: int) -> int { return x }; vals := [g, g, 3]; i := mut 0; while h: (int) -> int | float = vals[*i] { i += 1 }; *i", 2)
    # acceptance: what the checker must reject for `return`, loop values and match coverage to mean what C12 says
    for k, prog in enumerate([
        "f := (b: bool) -> int { if b { return } return 1 }; f(false)",
        "f := () -> int { return }; f()",
        "f := (b: bool) -> int | float { if b { return 1.5 } return }; f(false)",
        "f := () -> int { loop { break } }; f()",
        "f := () -> int { i := mut 0; while true { i += 1; if *i > 2 { break } } }; f()",
        "f := (xs: [int | string]) -> int { i := mut 0; loop { match xs[*i] { n: int => { i += 1 }, s: string => { break }, } } }; f([1, \"a\"])",
        "nxt := () -> int | string { return 1 }; f := () -> int { loop { if x: int = nxt() { break } } }; f()",
        "nxt := () -> int | string { return 1 }; f := () -> int { loop { if x: string = nxt() { 0 } else { break } } }; f()",
        "f := () -> int { loop { y := { break } } }; f()",
        "r := if true { loop { break } } else { 5 }; match r { n: int => n, }",
        "i := mut 0; r := if true { loop { match *i { (0) => { break }, => { i += 1 }, } } } else { 5 }; match r { n: int => n, }",
        "nxt := () -> int | string { return 1 }; r := if true { loop { if x: int = nxt() { break } } } else { 5 }; match r { n: int => n, }",
        "x := { loop { break } }; match x { n: int => n, }",
        "f := () -> int { return 1.5 }; f()",
        "f := () -> int { return () }; f()",
        "break", "continue", "f := () -> int { break; return 1 }; f()",
        "i := mut 0; loop { g := () -> int { break; return 1 }; i += 1; if *i > 2 { break } }",
    ]):
        c(f"reject/{k}", prog, Rejected())
    for k, prog in enumerate([
        "f := (c: bool, v: int | string) -> int { x := if c 1 else v; return match x { n: int => n, } }; f(false, \"s\")",
        "f := (c: bool, v: int | string) -> int { x := if c v else 1; return match x { n: int => n, } }; f(true, \"s\")",
        "f := (v: int | string | float) -> int { x := match v { i: int => 1, o: string | float | int => o, }; return match x { n: int => n, } }; f(\"s\")",
        "f := (v: int | float) -> int { x := if n: int = v { n } else { v }; return match x { k: int => k, } }; f(1.5)",
        "f := (c: bool, v: [int | string]) -> [int] { return if c [1] else v }; f(false, [\"s\"])",
        "f := (c: bool, v: int | string) -> int { return if c 1 else v }; f(false, \"s\")",
    ]):
        c(f"reject/union_collapse/{k}", prog, Rejected())
    # the SAME construct executed again with other values: every execution selects afresh (no memory of the previous one)
    import itertools as _it
    _CL = ("classify := (v: int | float | string) -> string { return match v { 0 => \"zero\", x: int => \"int\", "
           "y: int | float => \"number\", => \"other\", } }; ")
    _ARGS = [("0", "zero"), ("7", "int"), ("1.5", "number"), ("\"a\"", "other")]
    for n in (2, 3):
        for k, seq in enumerate(_it.product(range(4), repeat=n)):
            c(f"repeat/match/{n}/{k}", _CL + "(" + ", ".join(f"classify({_ARGS[i][0]})" for i in seq) + ")",
              tuple(_ARGS[i][1] for i in seq))
    _IS = ("pick := (v: int | float | string) -> int { if x: int = v { return 1 } if y: int | float = v { return 2 } return 3 }; ")
    _IA = [("5", 1), ("2.5", 2), ("\"s\"", 3)]
    for k, seq in enumerate(_it.product(range(3), repeat=3)):
        c(f"repeat/ifset/{k}", _IS + "(" + ", ".join(f"pick({_IA[i][0]})" for i in seq) + ")", tuple(_IA[i][1] for i in seq))
    c("repeat/match_in_loop", "vals := [7, 0, 1.5, 0, \"a\", 7, 0]; out := mut \"\"; for v in vals~ { t := match v { 0 => \"z\", x: int => \"i\", "
      "y: int | float => \"n\", => \"o\", }; out = *out + t }; *out", "iznzoiz")
    c("repeat/if_in_loop", "out := mut 0; for v in [1, 5, 2, 7, 0]~ { d := if v > 2 { 1 } else { 2 }; out = *out * 10 + d }; *out", 21212)
    c("repeat/value_arm_candidates_reevaluated", "f := (v: int, k: int) -> int { return match v { k, k + 1 => 1, => 0, } }; (f(3, 3), f(3, 9), f(10, 9), f(3, 2), f(3, 4))", (1, 0, 1, 1, 0))
    c("repeat/same_code_twice", "g := (v: int | string) -> int { r := match v { s: string => 1, 0 => 2, i: int => 3, }; return r }; h := (a: int | string, b: int | string) -> (int, int) { return (g(a), g(b)) }; "
      "(h(5, 0), h(0, 5), h(\"s\", 0), h(5, \"s\"))", ((3, 2), (2, 3), (1, 2), (3, 1)))
    # run-time types of COMPOUND elements: arrays of arrays / tuples / structs whose inner types differ (all elements are of the same kind)
    _RT = "a := [1]; b := [2.5]; "
    c("runtime_type/array_of_arrays", _RT + "f := (x: [[int] | [float]]) -> int { return match x { v: [[int]] => 1, v: [[int] | [float]] => 2, } }; (f([a, b]), f([a, a]), f([b]), f([b, a]))", (2, 1, 2, 2))
    c("runtime_type/array_of_arrays_ifset", _RT + "g := (x: [[int] | [float]]) -> int { if v: [[int]] = x { return 1 } return 2 }; (g([a, b]), g([a]), g([b, b]))", (2, 1, 2))
    c("runtime_type/array_of_tuples", "f := (x: [(int, int | float)]) -> int { return match x { v: [(int, int)] => 1, => 2, } }; (f([(1, 2), (1, 2.5)]), f([(1, 2)]), f([(3, 0.5), (1, 2)]))", (2, 1, 2))
    c("runtime_type/array_of_structs", "f := (x: [struct{k: int | string}]) -> int { return match x { v: [struct{k: int}] => 1, => 2, } }; (f([struct{k := 1}, struct{k := \"s\"}]), f([struct{k := 1}]))", (2, 1))
    c("runtime_type/whileset_compound", _RT + "vals := [[a, a], [a, b], [b]]; i := mut 0; n := mut 0; while v: [[int]] = vals[*i] { n += 1; i += 1 } (*n, *i)", (1, 1))
    c("runtime_type/nested_in_tuple", _RT + "f := (x: ([[int] | [float]], int)) -> int { return match x { v: ([[int]], int) => 1, => 2, } }; (f(([a, b], 0)), f(([a], 0)))", (2, 1))
    c("accept/union_value_flows", "f := (c: bool, v: int | string) -> int | string { return if c 1 else v }; (f(true, \"s\"), f(false, \"s\"))", (1, "s"))
    c("accept/bare_return_in_void_fn", "n := mut 0; f := (b: bool) { if b { return } n += 1 }; f(true); f(false); *n", 1)
    c("accept/return_void_value", "f := (b: bool) -> () | int { if b { return } return 1 }; (f(true), f(false))", (None, 1))
    c("accept/loop_value_is_void", "x := loop { break }; y := { i := mut 0; while *i < 2 { i += 1 } }; (x, y)", (None, None))
    c("accept/loop_then_return", "f := () -> int { i := mut 0; loop { i += 1; if *i > 2 { break } } return *i }; f()", 3)
    return out


def fam_fold_logic(tier, seed, extra=()):
    return [c for c in fam_order(tier, seed) if "/and/" in c.id or "/or/" in c.id]


def literal_index_cases():
    """constant index into an array LITERAL with non-constant elements (at::create_from_instructions, Array arm)
    and into string constants, at and around the boundaries -n and n"""
    out = []
    # constant index into an array LITERAL with non-constant elements (at::create_from_instructions, Array arm)
    for n in (1, 2, 3):
        elems = ", ".join(f"x + {j}" for j in range(n))
        for i in (-n - 1, -n, -n + 1, -1, 0, n - 1, n, n + 1, MIN, MAX):
            exp = (10 + (i % n)) if -n <= i < n else Err(E_INDEX)
            out.append(Case(f"fold/index/lit/{n}/{i}", f"f := (x: int) -> int {{ return [{elems}][i] }}; f(10)", exp, {"i": i},
                            what=f"[{elems}][{i}] with x hidden"))
            out.append(Case(f"fold/index/str/{n}/{i}", f"f := (x: int) -> string {{ return \"{'abc'[:n]}\"[i] }}; f(10)",
                            ('abc'[:n][i] if -n <= i < n else Err(E_INDEX)), {"i": i}))
    return out


def fam_fold(tier, seed, extra=()):
    """constant vs hidden-constant twins at the operator level"""
    out = []
    pairs = grid_pairs(SMALL_GRID, [e for e in extra if len(e) == 2 and all(isinstance(x, int) for x in e)])
    for op in ("+", "-", "*", "/", "%", "**", "<<", ">>", "&", "|", "^", "<", "<=", ">", ">=", "==", "!="):
        # (`**` is not folded on the pinned tree; if it ever is, the folded value must be the run-time value for EVERY
        #  exponent, including those that do not fit 32 bits)
        out += [c for c in binop_cases(op, pairs, tag="fold/") if "/compound/" not in c.id]
    for op in ("+", "-", "*", "/"):
        out += binop_cases(op, grid_pairs([0.0, -0.0, 1.0, -1.0, 3.5, math.inf, -math.inf, math.nan]), kind="float", tag="fold/")
    # early errors only for operations that fail whenever evaluated
    # an operation on constants that fails whenever evaluated MAY be reported at parse time (permitted, not
    # required): the never-called function either makes parsing fail with that error or is simply never run
    out.append(Case("fold/early/div", "f := (x: int) -> int { return x / 0 }; 1", AnyOf(Err(E_ZDIV), 1)))
    out.append(Case("fold/early/mod", "f := (x: int) -> int { return x % 0 }; 1", AnyOf(Err(E_ZMOD), 1)))
    out.append(Case("fold/early/shl", "f := (x: int) -> int { return x << 64 }; 1", AnyOf(Err(E_SHIFT), 1)))
    out.append(Case("fold/early/shr", "f := (x: int) -> int { return x >> (0 - 1) }; 1", AnyOf(Err(E_SHIFT), 1)))
    out.append(Case("fold/noearly/fdiv", "f := (x: float) -> float { return x / 0.0 }; 1", 1))
    out.append(Case("fold/noearly/div", "f := (x: int) -> int { return 0 / x }; 1", 1))
    out.append(Case("fold/noearly/shl", "f := (x: int) -> int { return x << 63 }; 1", 1))
    out.append(Case("fold/if/const", "x := if 1 < 2 10 else 20; x", 10))
    out.append(Case("fold/repeat/neg", "f := (x: int) -> [int] { return [x; 0 - 1] }; 1", AnyOf(Err(E_NEGLEN), 1)))
    out.append(Case("fold/repeat/ok", "f := (x: int) -> [int] { return [x; 2] }; f(3)", [3, 3]))
    out += literal_index_cases()
    out.append(Case("fold/index/early", "f := (x: int) -> int { return [x, x][2] }; 1", AnyOf(Err(E_INDEX), 1)))
    out.append(Case("fold/index/ok", "f := (x: int) -> int { return [x, x + 1][0 - 1] }; f(1)", 2))
    return out


TWIN_TEMPLATES = [
    # (name, statements using constants A, B, C (ints) ; result expression)
    ("arith", "x := A + B * C; y := x - A; (x, y, x / C, x % C)"),
    ("propagate", "x := A; y := x + B; z := y * y; w := z; (w, w == z, w > x)"),
    ("shadow", "x := A; x := x + 1; { x := x * 2; }; x"),
    ("block_value", "x := { t := A; t + B }; x * C"),
    ("if_const", "x := if A < B { A } else { B }; y := if A == A { 1 } else { 2 }; (x, y)"),
    ("if_prune_effect", "c := mut 0; if A < B { c += 1 } else { c += 10 }; if B < A { c += 100 }; *c"),
    ("and_or", "p := A < B && B < C; q := A > B || C > B; r := A > B && (1 / (A - A)) == 0; (p, q, r)"),
    ("short_circuit_effect", "c := mut 0; bump := () -> bool { c += 1; return true }; r := (A > B && bump()) || (A < B && bump()); (r, *c)"),
    ("and_absorbing_rhs_keeps_lhs_effect", "c := mut 0; r := ((c += 1) > 0 - 1000) && (A > A); q := ((c += 10) > 0 - 1000) || (A == A); (r, q, *c)"),
    ("and_or_rhs_constant_neutral", "c := mut 0; r := ((c += 1) > 1000) || (A > A); q := ((c += 10) > 1000) && (A == A); (r, q, *c)"),
    ("folded_array_runtime_type", "a := [A, 2.5]; b := [a[0], a[0]]; match b { v: [int] => 1, v: [any] => 2, }"),
    ("folded_array_ifset", "a := [A, 2.5]; c := mut 0; if ints: [int] = [a[0]] { c += 1 } else { c += 100 }; *c"),
    ("folded_tuple_runtime_type", "a := [A, 2.5]; t := (a[0], a[1]); match t { v: (int, float) => 1, => 2, }"),
    ("ifset_wider_type_constant", "c := mut 0; r := if x: int | float = A { c += 1; 1 } else { c += 10; 2 }; (r, *c)"),
    ("ifset_any_constant", "c := mut 0; r := if x: any = A { c += 1; 1 } else { c += 10; 2 }; q := if y: [any] = [A, B] 1 else 2; (r, q, *c)"),
    ("ifset_mismatch_constant", "c := mut 0; r := if x: float | string = A { c += 1; 1 } else { c += 10; 2 }; (r, *c)"),
    ("whileset_wider_type_constant", "n := mut 0; while x: int | string = A { n += 1; if *n >= 3 { break } }; *n"),
    ("float_two_constants_after_runtime", "m := mut 0.1; r := *m + FA + FB; q := *m * FB * FA; m = 1e16; (r, q, *m + FA + FA, *m - FB - FB, *m / FA / FB)"),
    ("float_signed_zero_identities", "z := mut (FA - FA); n := mut (0.0 * (0.0 - 1.0)); (0.0 - *z, *z - 0.0, 0.0 + *z, *z + 0.0, *z * 1.0, 1.0 * *z, 0.0 - *n, *n + 0.0, 0.0 + *n, *n * 1.0, (FA - FA) - *z, *n - (FB - FB))"),
    ("float_constants_before_runtime", "m := mut 0.1; (FA + FB + *m, FA * FB * *m, FA - FB - *m)"),
    ("int_two_constants_after_runtime", "m := mut A; (*m + B + C, *m - B - C, *m * B * C, (*m + B) * C)"),
    ("index", "arr := [A, B, C]; (arr[0], arr[2 - 3], arr[1] + arr[0])"),
    ("index_expr", "[A, B, C][(A - A) + 1]"),
    ("tuple", "t := (A, B, C); (t.0 + t.2, t.1)"),
    ("destruct", "(p, q) := (A, B + C); p * q"),
    ("repeat", "r := [A; 3]; (r, r[1] + B)"),
    ("string_index", "s := \"héllo\"; (s[1], s[0 - 1])"),
    ("slice", "[A, B, C, A, B][1:4:2]"),
    ("while_const", "i := mut 0; while *i < A - A + 3 { i += 1 }; *i"),
    ("while_false", "c := mut 7; while A > A { c += 1 }; *c"),
    ("loop_break", "i := mut A; n := mut 0; loop { if *i >= A + 3 { break } i += 1; n += 1 }; *n"),
    ("mut_effects", "c := mut A; c += B; c *= C; d := c; d -= 1; (*c, *d)"),
    ("mut_order", "log := mut 0; t := (k: int) -> int { log = *log * 10 + k; return k }; r := t(1) + A * t(2) - t(3); (r, *log)"),
    ("closure_capture", "k := A; f := (x: int) -> int { return x + k }; k := B; (f(1), k)"),
    ("closure_mut", "c := mut A; f := () -> int { c += 1; return *c }; (f(), f(), *c)"),
    ("fn_const_args", "f := (x: int, y: int) -> int { return x * y + x }; (f(A, B), f(B, C))"),
    ("recursion", "fact := (n: int) -> int { if n < 2 { return 1 } return n * fact(n - 1) }; fact(A - A + 5)"),
    ("match_type", "v := if A < B { A } else { 2.5 }; match v { x: int => x + 1, => 0, }"),
    ("match_value", "match A + B { (A + B) => 1, => 2, }"),
    ("shift", "(A << 3, (0 - A) >> 1, B << 62, C >> 63)"),
    ("bits", "(A & B, A | C, B ^ C, !A)"),
    ("compare", "(A < B, A <= A, B > C, C >= C, A == B, A != B)"),
    ("neg", "(-A, -(A - B), -(-C))"),
    ("eq_arrays", "x := [A, B]; y := [A] + [B]; (x == y, x != y, [A; 0] == [])"),
    ("nested_fn", "f := (x: int) -> int { g := (y: int) -> int { return y * A }; return g(x) + B }; f(C)"),
    ("for_sum", "s := mut 0; for x in [A, B, C]~ { s += x }; *s"),
    ("collect", "[A, B, C]~ @ (x: int) -> int { return x * 2 } $]"),
    ("div_zero_late", "c := mut 0; f := (x: int) -> int { c += 1; return x / (A - A) }; r := if A > A { f(1) } else { 5 }; (r, *c)"),
    ("div_zero_hit", "f := (x: int) -> int { return x / (A - A) }; f(B)"),
    ("mod_zero_hit", "f := (x: int) -> int { return x % (B - B) }; f(A)"),
    ("shift_over_hit", "f := (x: int) -> int { return x << (A - A + 64) }; f(1)"),
    ("index_oob_hit", "f := (i: int) -> int { return [A, B][i] }; f(2)"),
    ("neglen_hit", "f := (x: int) -> [int] { return [x; A - A - 1] }; f(1)"),
    ("error_order", "f := (x: int) -> int { return ([A][x]) + (B / (A - A)) }; f(5)"),
    ("float_ops", "x := 1.5; y := x * 2.0 - 0.25; (y, y / 0.0, y > x, -y)"),
    ("struct", "s := struct{a := A, b := B + C}; (s.a, s.b)"),
    # names re-bound by the statement that also reads them (the literal side runs these as TOP-LEVEL statements)
    # a binder that shadows an outer name must not leak into the code after the construct
    ("match_binder_shadows", "x := A; v := if A == A { B } else { 2.5 }; r := match v { x: int => x + 1, => 0, }; (r, x)"),
    ("match_binder_shadows_runtime_outer", "m := mut A; x := *m; v := if A == A { B } else { 2.5 }; r := match v { x: int => x + 1, => 0, }; (r, x)"),
    ("ifset_binder_shadows", "x := A; r := if x: int = B { x + 1 } else { 0 }; (r, x)"),
    ("for_binder_shadows", "x := A; s := mut 0; for x in [B, C]~ { s += x }; (*s, x)"),
    ("param_shadows", "x := A; f := (x: int) -> int { return x + 1 }; (f(B), x)"),
    ("block_shadows", "x := A; y := { x := B; x + 1 }; (x, y)"),
    ("whileset_binder_shadows", "x := A; n := mut 0; pick := (k: int) -> int | float { if k < 2 { return B } return 2.5 }; while x: int = pick(*n) { n += 1 }; (*n, x)"),
    ("destruct_swap_mixed", "x := A; m := mut B; y := *m; (x, y) := (y, x); (x, y)"),
    ("destruct_swap_constants", "x := A; y := B; (x, y) := (y, x); (x, y)"),
    ("destruct_rebind_reads_old", "m := mut A; x := *m; (x, y) := (B, x); (x, y)"),
    ("destruct_rotate", "m := mut C; x := A; y := B; z := *m; (x, y, z) := (z, x, y); (x, y, z)"),
    ("destruct_in_block", "m := mut C; x := A; r := { y := *m; (x, y) := (y, x); (x, y) }; (r, x)"),
    ("set_rebind_reads_old", "m := mut A; x := *m; x := x + B; x := x * C; y := B; y := y - x; (x, y)"),
    ("set_rebind_constant_then_runtime", "m := mut B; x := A; x := x + *m; x := x * C; x"),
]


def fam_twins(tier, seed, extra=()):
    """C04: a program with literal constants vs the same program with the constants hidden from the
    optimizer (passed as function arguments): same value / same run-time error; the literal side may
    report a constant operation that fails whenever evaluated at parse time"""
    out = []
    vals = [(3, 7, 2), (0, 1, 5), (-4, 63, 9), (MAX, 2, 1), (5, 5, 5)]
    if tier == "thorough":
        rnd = random.Random(seed + 5)
        vals += [(rnd.randint(-50, 50), rnd.randint(-50, 50), rnd.choice([1, 2, 3, 7, -3])) for _ in range(12)]
    for name, body in TWIN_TEMPLATES:
        *stmts, res = [x.strip() for x in split_top(body)]
        fvals = [(0.2, 0.3), (1.0, 1.0), (0.1, 0.7), (1e-16, 3.0), (1e308, 1e308)]
        for vi, (a, b, c) in enumerate(vals):
            fa, fb = fvals[vi % len(fvals)]
            def lit(v):
                return f"({v})" if v >= 0 else f"(0 - {-v})"
            sub = lambda t, A, B, C, FA, FB: re.sub(r"\b(FA|FB|[ABC])\b", lambda m: {"A": A, "B": B, "C": C, "FA": FA, "FB": FB}[m.group(1)], t)
            lit_prog = sub("; ".join(stmts + [res]), lit(a), lit(b), lit(c), repr(fa), repr(fb))
            hid_body = sub("; ".join(stmts + ["return " + res]), "ca", "cb", "cc", "cfa", "cfb")
            hid_prog = f"hidden := (ca: int, cb: int, cc: int, cfa: float, cfb: float) -> any {{ {hid_body} }}; hidden(va, vb, vc, vfa, vfb)"
            hid = Case(f"twin/{name}/{vi}/hidden", hid_prog, None, {"va": a, "vb": b, "vc": c, "vfa": fa, "vfb": fb}, mode="std")
            # the hidden side still sees va, vb, vc as interpreter constants at the call site only
            out.append(hid)
            out.append(Case(f"twin/{name}/{vi}/literal", lit_prog, Twin(hid.id), mode="std",
                            what=f"{name} with A={a} B={b} C={c}"))
    return out


def split_top(body):
    """split `a; b; c` at top-level semicolons"""
    parts, depth, cur = [], 0, []
    for ch in body:
        if ch in "([{":
            depth += 1
        elif ch in ")]}":
            depth -= 1
        if ch == ";" and depth == 0:
            parts.append("".join(cur))
            cur = []
        else:
            cur.append(ch)
    if "".join(cur).strip():
        parts.append("".join(cur))
    return parts


class _Gen:
    """random well-typed programs over constants K0..K3 (int), F0..F1 (float), B0 (bool) for the differential
    C04 probes: no oracle is needed, the literal and the hidden-constant version must agree"""
    def __init__(self, rnd):
        self.r = rnd
        self.ints, self.floats, self.bools, self.cells = [], [], [], []
        self.n = 0

    def fresh(self, p):
        self.n += 1
        return f"{p}{self.n}"

    def int_e(self, d):
        r = self.r
        c = r.random()
        if d <= 0 or c < 0.3:
            opts = ["K0", "K1", "K2", "K3", str(r.choice([0, 1, 2, 3, 7, 63, 64]))] + self.ints + [f"(*{m})" for m in self.cells]
            return r.choice(opts)
        if c < 0.75:
            op = r.choice(["+", "-", "*", "/", "%", "<<", ">>", "&", "|", "^", "+", "-", "*"])
            return f"({self.int_e(d - 1)} {op} {self.int_e(d - 1)})"
        if c < 0.85:
            return f"(-{self.int_e(d - 1)})"
        return f"(!{self.int_e(d - 1)})"

    def float_e(self, d):
        r = self.r
        if d <= 0 or r.random() < 0.35:
            return r.choice(["F0", "F1", "0.5", "3.0", "0.1"] + self.floats)
        op = r.choice(["+", "-", "*", "/"])
        return f"({self.float_e(d - 1)} {op} {self.float_e(d - 1)})"

    def bool_e(self, d):
        r = self.r
        c = r.random()
        if d <= 0 or c < 0.2:
            return r.choice(["B0", "true", "false"] + self.bools)
        if c < 0.6:
            op = r.choice(["<", "<=", ">", ">=", "==", "!="])
            return f"({self.int_e(d - 1)} {op} {self.int_e(d - 1)})"
        if c < 0.7:
            op = r.choice(["<", ">", "==", "<="])
            return f"({self.float_e(d - 1)} {op} {self.float_e(d - 1)})"
        if c < 0.9:
            op = r.choice(["&&", "||", "&", "|", "^"])
            return f"({self.bool_e(d - 1)} {op} {self.bool_e(d - 1)})"
        return f"(!{self.bool_e(d - 1)})"

    def stmt(self, d):
        r = self.r
        c = r.random()
        if c < 0.06 and len(self.ints) >= 2:
            # destructuring that REBINDS names it also reads (swap / rotate / mixed with a fresh value)
            k = r.randint(2, min(3, len(self.ints)))
            names = r.sample(self.ints, k)
            rhs = [r.choice(names + [self.int_e(1)]) for _ in names]
            return f"({', '.join(names)}) := ({', '.join(rhs)})"
        if c < 0.1 and self.ints:
            # re-declaration that reads the old binding
            v = r.choice(self.ints)
            return f"{v} := ({v} {r.choice(['+', '*', '-', '^'])} {self.int_e(1)})"
        if c < 0.22:
            v = self.fresh("v")
            s = f"{v} := {self.int_e(2)}"
            self.ints.append(v)
            return s
        if c < 0.3:
            v = self.fresh("v")
            s = f"{v} := if {self.bool_e(2)} {{ {self.int_e(1)} }} else {{ {self.int_e(1)} }}"
            self.ints.append(v)
            return s
        if c < 0.4:
            v = self.fresh("b")
            s = f"{v} := {self.bool_e(2)}"
            self.bools.append(v)
            return s
        if c < 0.5:
            v = self.fresh("f")
            s = f"{v} := {self.float_e(2)}"
            self.floats.append(v)
            return s
        if c < 0.65 or not self.cells:
            m = self.fresh("m")
            s = f"{m} := mut {self.int_e(1)}"
            self.cells.append(m)
            return s
        if c < 0.8:
            m = r.choice(self.cells)
            op = r.choice(["+=", "-=", "*=", "=", "&=", "|=", "^=", "/=", "%=", "<<=", ">>="])
            return f"{m} {op} {self.int_e(2)}"
        if c < 0.92 and d > 0:
            # names bound inside the branch must not escape it
            saved = (list(self.ints), list(self.floats), list(self.bools), list(self.cells))
            body = "; ".join(self.stmt(d - 1) for _ in range(r.randint(1, 2)))
            self.ints, self.floats, self.bools, self.cells = saved
            return f"if {self.bool_e(2)} {{ {body} }}"
        m = r.choice(self.cells)
        i = self.fresh("i")
        return f"{i} := mut 0; while *{i} < 3 {{ {i} += 1; {m} += {self.int_e(1)} }}"

    def program(self):
        stmts = [self.stmt(2) for _ in range(self.r.randint(3, 7))]
        res = "(" + ", ".join(self.ints + self.floats + self.bools + [f"*{m}" for m in self.cells] + ["0", "0"]) + ")"
        return "; ".join(stmts), res


def fam_twins_random(tier, seed, extra=()):
    out = []
    n = 250 if tier == "quick" else 3000
    rnd = random.Random(1000003 * (seed + 1))
    consts = [0, 1, 2, 3, 5, 7, -1, -3, 63, 64, MAX, MIN + 1, 1 << 32]
    fconsts = [0.0, -0.0, 0.1, 0.2, 0.3, 1.0, 3.0, 1e16, 1e308]
    for k in range(n):
        g = _Gen(random.Random(rnd.getrandbits(64)))
        body, res = g.program()
        ks = [rnd.choice(consts) for _ in range(4)]
        fs = [rnd.choice(fconsts) for _ in range(2)]
        b0 = rnd.random() < 0.5
        def lit_i(v):
            return f"({v})" if v >= 0 else f"(0 - {-v})"
        def lit_f(v):
            return repr(v) if (v > 0 or (v == 0 and math.copysign(1.0, v) > 0)) else f"(0.0 - {repr(-v)})" if v != 0 else "(0.0 * (0.0 - 1.0))"
        def sub(t, kk, ff, bb):
            t = re.sub(r"\bK([0-3])\b", lambda m: kk[int(m.group(1))], t)
            t = re.sub(r"\bF([0-1])\b", lambda m: ff[int(m.group(1))], t)
            return re.sub(r"\bB0\b", bb, t)
        lit = sub(f"{body}; return {res}", [lit_i(v) for v in ks], [lit_f(v) for v in fs], "true" if b0 else "false")
        hid = sub(f"{body}; return {res}", ["ck0", "ck1", "ck2", "ck3"], ["cf0", "cf1"], "cb0")
        hprog = f"hidden := (ck0: int, ck1: int, ck2: int, ck3: int, cf0: float, cf1: float, cb0: bool) -> any {{ {hid} }}; hidden(vk0, vk1, vk2, vk3, vf0, vf1, vb0)"
        lprog = f"literal := () -> any {{ {lit} }}; literal()"
        vs = {"vk0": ks[0], "vk1": ks[1], "vk2": ks[2], "vk3": ks[3], "vf0": fs[0], "vf1": fs[1], "vb0": b0}
        h = Case(f"rtwin/{k}/hidden", hprog, None, vs, mode="std")
        out.append(h)
        out.append(Case(f"rtwin/{k}/literal", lprog, Twin(h.id), mode="std", what=f"random program #{k} (seed {seed})"))
        # the same literal program as TOP-LEVEL statements (Code::parse creates and folds those one by one)
        # (compared with a top-level twin whose constants are read through cells, so that both sides are subject to the
        #  same top-level error handling of Code::exec_unscoped - observation D3)
        tprog = sub(f"{body}; {res}", [lit_i(v) for v in ks], [lit_f(v) for v in fs], "true" if b0 else "false")
        hide = "; ".join([f"ck{i} := *(mut {lit_i(v)})" for i, v in enumerate(ks)] + [f"cf{i} := *(mut {lit_f(v)})" for i, v in enumerate(fs)]
                         + [f"cb0 := *(mut {'true' if b0 else 'false'})"])
        htop = Case(f"rtwin/{k}/toplevel_hidden", hide + "; " + sub(f"{body}; {res}", ["ck0", "ck1", "ck2", "ck3"], ["cf0", "cf1"], "cb0"), None, {}, mode="std")
        out.append(htop)
        out.append(Case(f"rtwin/{k}/toplevel", tprog, Twin(htop.id), mode="std", what=f"random program #{k} at top level (seed {seed})"))
    return out


# ------------------------------------------------------------------------------------------------
# random control-flow / evaluation-order programs with a reference evaluator (bounded probe oracle
# for C07 and C12; written from docs/statements.md and docs/operators.md, shares no code with /repo)
class _Brk(Exception):
    pass


class _Cnt(Exception):
    pass


class _Ret(Exception):
    def __init__(self, v):
        self.v = v


class _FRet(Exception):
    def __init__(self, v):
        self.v = v


class _CF:
    """AST nodes are tuples; render() gives SimpleSL text, ev() the reference semantics"""
    def __init__(self, rnd):
        self.r = rnd
        self.ncell = 0
        self.nvar = 0
        self.nfun = 0
        self.tick = 0
        self.funs = []
        self.in_fn = False

    # ---------- generation
    def expr(self, d, vars_, cells):
        r = self.r
        c = r.random()
        if d <= 0 or c < 0.25:
            opts = [("lit", r.randint(-3, 9))]
            opts += [("var", v) for v in vars_] + [("cell", m) for m in cells]
            return r.choice(opts)
        if c < 0.5:
            self.tick += 1
            return ("t", self.tick % 9 + 1, self.expr(d - 1, vars_, cells))
        if c < 0.8:
            return ("bin", r.choice(["+", "-", "*"]), self.expr(d - 1, vars_, cells), self.expr(d - 1, vars_, cells))
        if c < 0.9 and self.funs:
            return ("call", r.choice(self.funs), self.expr(d - 1, vars_, cells))
        return ("neg", self.expr(d - 1, vars_, cells))

    def cond(self, d, vars_, cells):
        r = self.r
        c = r.random()
        if d <= 0 or c < 0.55:
            return ("cmp", r.choice(["<", "<=", ">", ">=", "==", "!="]), self.expr(1, vars_, cells), self.expr(1, vars_, cells))
        if c < 0.85:
            return ("logic", r.choice(["&&", "||"]), self.cond(d - 1, vars_, cells), self.cond(d - 1, vars_, cells))
        return ("not", self.cond(d - 1, vars_, cells))

    def block(self, d, vars_, cells, in_loop, n=None, top=False):
        vars_, cells = list(vars_), list(cells)
        out = []
        for _ in range(n or self.r.randint(1, 4)):
            out.append(self.stmt(d, vars_, cells, in_loop, top))
        return out

    def stmt(self, d, vars_, cells, in_loop, top=False):
        r = self.r
        c = r.random()
        if c < 0.18 or not cells:
            self.ncell += 1
            m = f"c{self.ncell}"
            s = ("newcell", m, self.expr(1, vars_, cells))
            cells.append(m)
            return s
        if c < 0.3:
            self.nvar += 1
            v = f"v{self.nvar}"
            s = ("set", v, self.expr(2, vars_, cells))
            vars_.append(v)
            return s
        if c < 0.5:
            return ("assign", r.choice(cells), r.choice(["=", "+=", "-=", "*="]), self.expr(2, vars_, cells))
        if c < 0.65 and d > 0:
            return ("if", self.cond(1, vars_, cells), self.block(d - 1, vars_, cells, in_loop),
                    self.block(d - 1, vars_, cells, in_loop) if r.random() < 0.6 else None)
        if c < 0.78 and d > 0:
            self.ncell += 1
            i = f"i{self.ncell}"
            bound = r.randint(1, 3)
            kind = r.choice(["while", "loop"])
            body = self.block(d - 1, vars_, cells, True)   # the loop counter is not visible to the body
            return (kind, i, bound, body)
        if c < 0.84 and in_loop:
            return ("break",) if r.random() < 0.5 else ("continue",)
        if c < 0.86 and d > 0:
            return ("block", self.block(d - 1, vars_, cells, in_loop))
        if c < 0.88 and d > 0:
            # a block used as a value: its last statement is the value
            self.nvar += 1
            v = f"v{self.nvar}"
            st = ("setblock", v, self.block(d - 1, vars_, cells, in_loop), self.expr(1, vars_, cells))
            vars_.append(v)
            return st
        if c < 0.9 and d > 0:
            self.nvar += 1
            x = f"x{self.nvar}"
            return ("for", x, [self.expr(1, vars_, cells) for _ in range(r.randint(1, 3))],
                    self.block(d - 1, vars_ + [x], cells, True))
        if c < 0.915 and d > 0:
            self.nvar += 1
            x = f"x{self.nvar}"
            kind = r.choice(["ifset", "matchtype", "matchmixed"])
            if kind == "matchmixed":
                # a value arm and a type arm in random order: the FIRST covering arm, top to bottom, wins
                return (kind, x, self.expr(1, vars_, cells), self.block(d - 1, vars_ + [x], cells, in_loop, 1),
                        self.block(d - 1, vars_, cells, in_loop, 1), r.choice([0, 2, 4]),
                        self.block(d - 1, vars_, cells, in_loop, 1), r.random() < 0.5)
            return (kind, x, self.expr(1, vars_, cells), self.block(d - 1, vars_ + [x], cells, in_loop, 1),
                    self.block(d - 1, vars_, cells, in_loop, 1))
        if c < 0.93 and d > 0 and top and not self.in_fn and not in_loop:
            self.nfun += 1
            f = f"f{self.nfun}"
            self.in_fn = True
            body = self.block(d - 1, ["p"], cells, False)
            ret = self.expr(1, ["p"], cells)
            self.in_fn = False
            self.funs.append(f)
            return ("defn", f, body, ret)
        if c < 0.945 and d > 0:
            return ("mod", self.block(d - 1, vars_, cells, in_loop))
        if c < 0.955:
            return ("discard", r.choice(["tuple", "array"]), [self.expr(1, vars_, cells) for _ in range(2)])
        if c < 0.975:
            return ("freturn", self.expr(1, vars_, cells)) if self.in_fn else ("return", self.expr(1, vars_, cells))
        if d > 0:
            k = r.randint(0, 2)
            arms = [(j, self.block(d - 1, vars_, cells, in_loop, 1)) for j in range(k + 1)]
            return ("match", self.expr(1, vars_, cells), arms, self.block(d - 1, vars_, cells, in_loop, 1))
        return ("expr", self.expr(2, vars_, cells))

    # ---------- rendering
    def rex(self, e):
        k = e[0]
        if k == "lit":
            return str(e[1]) if e[1] >= 0 else f"(0 - {-e[1]})"
        if k == "var":
            return e[1]
        if k == "cell":
            return f"(*{e[1]})"
        if k == "t":
            return f"t({e[1]}, {self.rex(e[2])})"
        if k == "bin":
            return f"({self.rex(e[2])} {e[1]} {self.rex(e[3])})"
        if k == "call":
            return f"{e[1]}({self.rex(e[2])})"
        return f"(-{self.rex(e[1])})"

    def rcond(self, c):
        k = c[0]
        if k == "cmp":
            return f"({self.rex(c[2])} {c[1]} {self.rex(c[3])})"
        if k == "logic":
            return f"({self.rcond(c[2])} {c[1]} {self.rcond(c[3])})"
        return f"(!{self.rcond(c[1])})"

    def rblock(self, b):
        return "{ " + "; ".join(self.rstmt(x) for x in b) + " }"

    def rstmt(self, st):
        k = st[0]
        if k == "newcell":
            return f"{st[1]} := mut {self.rex(st[2])}"
        if k == "set":
            return f"{st[1]} := {self.rex(st[2])}"
        if k == "assign":
            return f"{st[1]} {st[2]} {self.rex(st[3])}"
        if k == "if":
            return f"if {self.rcond(st[1])} {self.rblock(st[2])}" + (f" else {self.rblock(st[3])}" if st[3] is not None else "")
        if k == "while":
            return f"{st[1]} := mut 0; while (*{st[1]}) < {st[2]} {{ {st[1]} += 1; " + "; ".join(self.rstmt(x) for x in st[3]) + " }"
        if k == "loop":
            return f"{st[1]} := mut 0; loop {{ if (*{st[1]}) >= {st[2]} {{ break }}; {st[1]} += 1; " + "; ".join(self.rstmt(x) for x in st[3]) + " }"
        if k == "break":
            return "break"
        if k == "continue":
            return "continue"
        if k == "block":
            return self.rblock(st[1])
        if k == "return":
            return f"return ({self.rex(st[1])}, (*log))"
        if k == "freturn":
            return f"return {self.rex(st[1])}"
        if k == "setblock":
            return f"{st[1]} := {{ " + "; ".join(self.rstmt(x) for x in st[2]) + f"; {self.rex(st[3])} }}"
        if k == "for":
            return f"for {st[1]} in [" + ", ".join(self.rex(e) for e in st[2]) + f"]~ {self.rblock(st[3])}"
        if k == "ifset":
            return f"if {st[1]}: int = pick({self.rex(st[2])}) {self.rblock(st[3])} else {self.rblock(st[4])}"
        if k == "matchtype":
            return f"match pick({self.rex(st[2])}) {{ {st[1]}: int => {self.rblock(st[3])}, => {self.rblock(st[4])}, }}"
        if k == "matchmixed":
            ta = f"{st[1]}: int => {self.rblock(st[3])},"
            va = f"({st[5]}) => {self.rblock(st[6])},"
            arms = f"{va} {ta}" if st[7] else f"{ta} {va}"
            return f"match pick({self.rex(st[2])}) {{ {arms} => {self.rblock(st[4])}, }}"
        if k == "defn":
            return f"{st[1]} := (p: int) -> int {{ " + "; ".join(self.rstmt(x) for x in st[2]) + f"; return {self.rex(st[3])} }}"
        if k == "mod":
            return "mod " + self.rblock(st[1])
        if k == "discard":
            inner = ", ".join(self.rex(e) for e in st[2])
            return f"({inner})" if st[1] == "tuple" else f"[{inner}]"
        if k == "match":
            arms = " ".join(f"({j}) => {self.rblock(b)}," for j, b in st[2])
            return f"match {self.rex(st[1])} {{ {arms} => {self.rblock(st[3])}, }}"
        return self.rex(st[1])

    # ---------- reference semantics
    def ev(self, e, env, heap):
        k = e[0]
        if k == "lit":
            return e[1]
        if k == "var":
            return env[e[1]]
        if k == "cell":
            return heap[env[e[1]]]
        if k == "t":
            v = self.ev(e[2], env, heap)       # argument first, then the call logs
            heap[0] = wrap(heap[0] * 10 + e[1])
            return v
        if k == "bin":
            a = self.ev(e[2], env, heap)
            b = self.ev(e[3], env, heap)
            return int_op(e[1], a, b)
        if k == "call":
            arg = self.ev(e[2], env, heap)
            _f, body, ret, cenv = env[e[1]]
            fenv = dict(cenv)
            fenv["p"] = arg
            try:
                for st in body:
                    self.run(st, fenv, heap)
                return self.ev(ret, fenv, heap)
            except _FRet as r_:
                return r_.v
        return wrap(-self.ev(e[1], env, heap))

    def evc(self, c, env, heap):
        k = c[0]
        if k == "cmp":
            a = self.ev(c[2], env, heap)
            b = self.ev(c[3], env, heap)
            return int_op(c[1], a, b)
        if k == "logic":
            a = self.evc(c[2], env, heap)
            if c[1] == "&&":
                return self.evc(c[3], env, heap) if a else False
            return True if a else self.evc(c[3], env, heap)
        return not self.evc(c[1], env, heap)

    def run_block(self, b, env, heap):
        env = dict(env)
        for st in b:
            self.run(st, env, heap)

    def run(self, st, env, heap):
        k = st[0]
        if k == "newcell":
            v = self.ev(st[2], env, heap)
            heap.append(v)
            env[st[1]] = len(heap) - 1
        elif k == "set":
            env[st[1]] = self.ev(st[2], env, heap)
        elif k == "assign":
            v = self.ev(st[3], env, heap)           # value first, then read-modify-write of the cell
            a = env[st[1]]
            heap[a] = v if st[2] == "=" else int_op(st[2][0], heap[a], v)
        elif k == "if":
            if self.evc(st[1], env, heap):
                self.run_block(st[2], env, heap)
            elif st[3] is not None:
                self.run_block(st[3], env, heap)
        elif k in ("while", "loop"):
            heap.append(0)
            env[st[1]] = len(heap) - 1
            a = env[st[1]]
            while heap[a] < st[2]:
                heap[a] = wrap(heap[a] + 1)
                try:
                    self.run_block(st[3], env, heap)
                except _Brk:
                    break
                except _Cnt:
                    continue
        elif k == "break":
            raise _Brk()
        elif k == "continue":
            raise _Cnt()
        elif k == "block":
            self.run_block(st[1], env, heap)
        elif k == "return":
            v = self.ev(st[1], env, heap)
            raise _Ret((v, heap[0]))
        elif k == "freturn":
            raise _FRet(self.ev(st[1], env, heap))
        elif k == "setblock":
            benv = dict(env)
            for x in st[2]:
                self.run(x, benv, heap)
            env[st[1]] = self.ev(st[3], benv, heap)
        elif k == "for":
            vals = [self.ev(e, env, heap) for e in st[2]]   # the array is built before the loop starts
            for v in vals:
                benv = dict(env)
                benv[st[1]] = v
                try:
                    self.run_block(st[3], benv, heap)
                except _Brk:
                    break
                except _Cnt:
                    continue
        elif k in ("ifset", "matchtype"):
            v = self.ev(st[2], env, heap)
            if v % 2 == 0:                      # pick(k) is the int k for even k, the float 0.5 otherwise
                benv = dict(env)
                benv[st[1]] = v
                self.run_block(st[3], benv, heap)
            else:
                self.run_block(st[4], env, heap)
        elif k == "matchmixed":
            v = self.ev(st[2], env, heap)
            is_int = v % 2 == 0
            value_hit = is_int and v == st[5]
            if st[7] and value_hit:            # value arm written first
                self.run_block(st[6], env, heap)
            elif is_int:                        # type arm (also when the value arm comes second: it is shadowed)
                benv = dict(env)
                benv[st[1]] = v
                self.run_block(st[3], benv, heap)
            else:
                self.run_block(st[4], env, heap)
        elif k == "defn":
            env[st[1]] = ("fn", st[2], st[3], dict(env))   # captures by value at creation (cells stay shared: heap addresses)
        elif k == "mod":
            self.run_block(st[1], env, heap)
        elif k == "discard":
            for e in st[2]:
                self.ev(e, env, heap)
        elif k == "match":
            v = self.ev(st[1], env, heap)
            for j, b in st[2]:
                if v == j:
                    self.run_block(b, env, heap)
                    return
            self.run_block(st[3], env, heap)
        else:
            self.ev(st[1], env, heap)


def fam_control_random(tier, seed, extra=()):
    out = []
    n = 200 if tier == "quick" else 3000
    rnd = random.Random(7777 * (seed + 3))
    pre = ("log := mut 0; t := (k: int, v: int) -> int { log = (*log) * 10 + k; return v }; "
           "pick := (k: int) -> int | float { if k % 2 == 0 { return k } return 0.5 }; ")
    for k in range(n):
        g = _CF(random.Random(rnd.getrandbits(64)))
        body = g.block(2, [], [], False, rnd.randint(3, 7), top=True)
        cells = sorted({st[1] for st in body if st[0] == "newcell"})
        heap = [0]
        env = {}
        try:
            for st in body:
                g.run(st, env, heap)
            exp = (tuple(heap[env[c]] for c in cells) + (0,), heap[0])
        except _Ret as r_:
            exp = r_.v
        except (_Brk, _Cnt, _FRet):
            continue
        tail = "((" + ", ".join(f"(*{c})" for c in cells) + (", " if cells else "") + "0), (*log))"
        prog = pre + "main := () -> any { " + "; ".join(g.rstmt(st) for st in body) + f"; return {tail} }}; main()"
        out.append(Case(f"cfr/{k}", prog, exp, what=f"random control-flow program #{k} (seed {seed})"))
    return out


# ------------------------------------------------------------------------------------------------
# random values built along different routes, compared with == / != (C19); the reference equality is structural
# with IEEE floats, different kinds are unequal
def _ref_eq(a, b):
    if type(a) != type(b):
        return False
    if isinstance(a, float):
        return a == b
    if isinstance(a, (list, tuple)):
        return len(a) == len(b) and all(_ref_eq(x, y) for x, y in zip(a, b))
    if isinstance(a, dict):
        return a.keys() == b.keys() and all(_ref_eq(a[k], b[k]) for k in a)
    return a == b


class _ValGen:
    def __init__(self, rnd):
        self.r = rnd

    def scalar(self):
        r = self.r
        c = r.random()
        if c < 0.35:
            return r.choice([0, 1, 2, -1, 7, MAX, MIN + 1, (1 << 53) + 1, 1 << 53])
        if c < 0.6:
            return r.choice([0.0, -0.0, 1.0, 2.5, math.nan, math.inf, 1e16, 0.1])
        if c < 0.75:
            return r.random() < 0.5
        if c < 0.9:
            return r.choice(["", "a", "ab", "é", "a€"])
        return None

    def value(self, d):
        r = self.r
        c = r.random()
        if d <= 0 or c < 0.45:
            return self.scalar()
        if c < 0.75:
            return [self.value(d - 1) for _ in range(r.randint(0, 3))]
        if c < 0.9:
            return tuple(self.value(d - 1) for _ in range(r.randint(2, 3)))
        return {k: self.value(d - 1) for k in r.sample(["a", "b", "c"], r.randint(0, 2))}

    def render(self, v, route=0):
        """SimpleSL expression producing v; `route` picks among producers for arrays"""
        r = self.r
        if v is None:
            return "()"
        if isinstance(v, bool):
            return "true" if v else "false"
        if isinstance(v, int):
            return str(v) if v >= 0 else f"(0 - {-v})"
        if isinstance(v, float):
            if math.isnan(v):
                return "(0.0 / 0.0)"
            if math.isinf(v):
                return "(1.0 / 0.0)" if v > 0 else "(0.0 - 1.0 / 0.0)"
            if v == 0 and math.copysign(1.0, v) < 0:
                return "(0.0 * (0.0 - 1.0))"
            return repr(v) if v >= 0 else f"(0.0 - {repr(-v)})"
        if isinstance(v, str):
            return '"' + v + '"'
        if isinstance(v, tuple):
            return "(" + ", ".join(self.render(x, r.randint(0, 6)) for x in v) + ")"
        if isinstance(v, dict):
            return "struct{" + ", ".join(f"{k} := {self.render(x, r.randint(0, 6))}" for k, x in v.items()) + "}"
        elems = [self.render(x, r.randint(0, 6)) for x in v]
        lit = "[" + ", ".join(elems) + "]"
        if route == 1 and len(v) >= 1:      # concatenation
            k = r.randint(0, len(v))
            return "([" + ", ".join(elems[:k]) + "] + [" + ", ".join(elems[k:]) + "])"
        if route == 2:                      # slice of a longer, wider-typed array
            return "[" + ", ".join(['"pad"'] + elems + ["()"]) + f"][1:{len(v) + 1}]"
        if route == 3:                      # collect from an iterator
            return "(" + lit + "~ $])"
        _NOTPAD = "(x: any) -> bool { return match x { p: struct{pad__: int} => false, => true, } }"
        if route == 4 and len(v) >= 2:      # concatenation of three parts, grouped either way
            i = r.randint(0, len(v) - 1)
            j = r.randint(i, len(v))
            a, b, c = ("[" + ", ".join(elems[:i]) + "]", "[" + ", ".join(elems[i:j]) + "]", "[" + ", ".join(elems[j:]) + "]")
            return f"(({a} + {b}) + {c})" if r.random() < 0.5 else f"({a} + ({b} + {c}))"
        if route == 5 and len(v) >= 1:      # a partition part (stored element type: the wide one) extended by concatenation
            k = r.randint(0, len(v))
            return ("(([" + ", ".join(elems[:k] + ["struct{pad__ := 0}"]) + "]~ \\ " + _NOTPAD + ").0 + [" + ", ".join(elems[k:]) + "])")
        if route == 6:                      # filtered, then collected
            return "([" + ", ".join(["struct{pad__ := 0}"] + elems) + "]~ ? " + _NOTPAD + " $])"
        return lit


def fam_eq_random(tier, seed, extra=()):
    out = []
    n = 300 if tier == "quick" else 3000
    rnd = random.Random(424243 * (seed + 1))
    for k in range(n):
        g = _ValGen(random.Random(rnd.getrandbits(64)))
        a = g.value(2)
        b = a if rnd.random() < 0.5 else g.value(2)     # half of the pairs are the same value along two routes
        ea, eb = g.render(a, rnd.randint(0, 6)), g.render(b, rnd.randint(0, 6))
        exp = (_ref_eq(a, b), not _ref_eq(a, b), _ref_eq(b, a))
        out.append(Case(f"eqr/{k}/rt", f"f := (u: int) -> (bool, bool, bool) {{ x := {ea}; y := {eb}; return (x == y, x != y, y == x) }}; f(0)", exp,
                        what=f"{a!r} vs {b!r}"))
        out.append(Case(f"eqr/{k}/folded", f"x := {ea}; y := {eb}; (x == y, x != y, y == x)", exp, what=f"{a!r} vs {b!r} (constants)"))
    return out


# ------------------------------------------------------------------------------------------------
# random scalar expression trees with an oracle (C08): the same expression evaluated (1) with constant leaves
# (folded at parse time) and (2) with the leaves as function parameters (run time)
class _EvalErr(Exception):
    def __init__(self, kind):
        self.kind = kind


class _ExprGen:
    def __init__(self, rnd):
        self.r = rnd
        self.leaves = []   # (name, type, value)

    def leaf(self, typ):
        r = self.r
        if typ == "int":
            v = r.choice([0, 1, -1, 2, 3, 7, -7, 63, 64, 65, MAX, MIN, MIN + 1, 1 << 32, (1 << 53) + 1, r.randint(-100, 100)])
        elif typ == "float":
            v = r.choice([0.0, -0.0, 1.0, -1.5, 0.1, 0.2, 1e16, 1e308, 5e-324, math.inf, -math.inf, math.nan, 3.0])
        else:
            v = r.random() < 0.5
        name = f"l{len(self.leaves)}"
        self.leaves.append((name, typ, v))
        return ("leaf", name, typ, v)

    def gen(self, typ, d):
        r = self.r
        if d <= 0 or r.random() < 0.25:
            return self.leaf(typ)
        if typ == "int":
            c = r.random()
            if c < 0.8:
                return ("iop", r.choice(["+", "-", "*", "/", "%", "**", "<<", ">>", "&", "|", "^", "+", "-", "*"]), self.gen("int", d - 1), self.gen("int", d - 1))
            return ("iun", r.choice(["-", "!"]), self.gen("int", d - 1))
        if typ == "float":
            if r.random() < 0.85:
                return ("fop", r.choice(["+", "-", "*", "/"]), self.gen("float", d - 1), self.gen("float", d - 1))
            return ("fun", "-", self.gen("float", d - 1))
        c = r.random()
        if c < 0.3:
            return ("icmp", r.choice(["<", "<=", ">", ">=", "==", "!="]), self.gen("int", d - 1), self.gen("int", d - 1))
        if c < 0.55:
            return ("fcmp", r.choice(["<", "<=", ">", ">=", "==", "!="]), self.gen("float", d - 1), self.gen("float", d - 1))
        if c < 0.85:
            return ("bop", r.choice(["&&", "||", "&", "|", "^", "==", "!="]), self.gen("bool", d - 1), self.gen("bool", d - 1))
        return ("bun", "!", self.gen("bool", d - 1))

    def render(self, e):
        k = e[0]
        if k == "leaf":
            return e[1]
        if k in ("iun", "fun", "bun"):
            return f"({e[1]}{self.render(e[2])})"
        return f"({self.render(e[2])} {e[1]} {self.render(e[3])})"

    def ev(self, e):
        k = e[0]
        if k == "leaf":
            return e[3]
        if k == "iun":
            v = self.ev(e[2])
            return wrap(-v) if e[1] == "-" else ~v
        if k == "fun":
            return bits_f(f_bits(self.ev(e[2])) ^ (1 << 63))
        if k == "bun":
            return not self.ev(e[2])
        if k == "bop" and e[1] in ("&&", "||"):
            a = self.ev(e[2])
            if e[1] == "&&":
                return self.ev(e[3]) if a else False
            return True if a else self.ev(e[3])
        a = self.ev(e[2])
        b = self.ev(e[3])
        if k in ("iop", "icmp"):
            v = int_op(e[1], a, b)
            if isinstance(v, Err):
                raise _EvalErr(v.msg)
            return v
        if k in ("fop", "fcmp"):
            return float_op(e[1], a, b)
        return {"&": a and b, "|": a or b, "^": a != b, "==": a == b, "!=": a != b}[e[1]]


def fam_expr_random(tier, seed, extra=()):
    out = []
    n = 400 if tier == "quick" else 5000
    rnd = random.Random(99991 * (seed + 1))
    for k in range(n):
        g = _ExprGen(random.Random(rnd.getrandbits(64)))
        typ = rnd.choice(["int", "int", "float", "bool"])
        e = g.gen(typ, rnd.randint(1, 3))
        if not g.leaves:
            continue
        try:
            exp = g.ev(e)
        except _EvalErr as x:
            exp = Err(x.kind)
        txt = g.render(e)
        vs = {n_: v for n_, _t, v in g.leaves}
        params = ", ".join(f"{n_}: {t}" for n_, t, _v in g.leaves)
        args = ", ".join(n_ for n_, _t, _v in g.leaves)
        out.append(Case(f"xr/{k}/folded", txt, ErrOrEarly(exp.msg) if isinstance(exp, Err) else exp, vs, what="constant leaves"))
        out.append(Case(f"xr/{k}/runtime", f"f := ({params}) -> any {{ return {txt} }}; f({args})", exp, vs, what="run-time leaves"))
    return out


FAMILIES = {
    "unary:-": fam_unary, "bitwise": fam_bitwise, "compare": fam_compare, "float": fam_float, "eq": fam_eq,
    "eq_array": fam_eq_array, "index": fam_index, "slice": fam_slice, "order": fam_order, "control": fam_control,
    "fold": fam_fold, "logic": fam_fold_logic, "twins": fam_twins, "twins_random": fam_twins_random, "control_random": fam_control_random, "eq_random": fam_eq_random, "expr_random": fam_expr_random,
}


def family(name, tier="quick", seed=0, extra=()):
    if name.startswith("arith:"):
        return fam_arith(name.split(":", 1)[1], tier, seed, extra)
    if name == "peephole":
        import probes_peephole
        return probes_peephole.fam_peephole(tier, seed, extra)
    if name == "scope":
        import probes_scope
        return probes_scope.fam_scope(tier, seed, extra)
    if name == "iter":
        import probes_iter
        return probes_iter.fam_iter(tier, seed, extra)
    if name == "capture":
        import probes_capture
        return probes_capture.fam_capture(tier, seed, extra)
    if name in ("cells", "cells_random"):
        import probes_cells
        return (probes_cells.fam_cells if name == "cells" else probes_cells.fam_cells_random)(tier, seed, extra)
    return FAMILIES[name](tier, seed, extra)
