#!/bin/bash
# usage: kscratch.sh <scratch-dir>  — copy the current /repo working tree (without target/.git)
set -e
S="$1"; REPO="${VERIF_REPO:-/repo}"
mkdir -p "$S"
rsync -a --delete --exclude target --exclude .git "$REPO"/ "$S"/
cp /verif/kani/verif_contracts.rs "$S"/src/instruction/bin_op/verif_contracts.rs
printf '\n#[cfg(kani)]\nmod verif_contracts;\n' >> "$S"/src/instruction/bin_op.rs
mkdir -p "$S"/src/instruction/slicing
cp /verif/kani/verif_slicing.rs "$S"/src/instruction/slicing/verif_slicing.rs
printf '\n#[cfg(kani)]\nmod verif_slicing;\n' >> "$S"/src/instruction/slicing.rs
mkdir -p "$S"/.cargo
printf '[net]\noffline = true\n' > "$S"/.cargo/config.toml
# heap objects above 64 bytes (ArcInner<Mut>, ...) are not field-sensitive in CBMC by default: lock words, Arc counts and enum
# tags stored in them are then not constant-propagated and symex never leaves RwLock::write_contended (DESIGN 13.8)
printf '\n[package.metadata.kani.flags]\ncbmc-args = ["--max-field-sensitivity-array-size", "256"]\n' >> "$S"/Cargo.toml
