"""Probe family `scope` (C06): lexical scoping, closures capture by value at creation.

Fixed scenarios; the expected outcome of each is written down from the statement of C06 (a name denotes the nearest
enclosing declaration that textually precedes its use; declarations inside a block / module / loop body / match arm /
if-set body / function body are invisible after it; nothing a callee, iterator or operator implementation declares is
visible to - or overwrites a name of - its caller; a function value captures the VALUES of its free names when it is
created, captured cells stay shared; a function can call itself by its declared name from any call path).
Names bound to `*(mut v)` are run-time values (nothing is folded), names bound to literals are constants (the folding pass
substitutes them): both routes must agree, so most scenarios exist in both forms (`{H}` is replaced by `*(mut v)` / `v`).
"""
from probes import Case, Rejected, Steps, STEP_SEP

# (id, program with {H:v} holes, expected)
S = [
    ("block/shadow", "x := {H:1}; { x := {H:2}; x } x", 1),
    ("block/value_uses_inner", "x := {H:1}; y := { x := {H:2}; x + 1 }; (x, y)", (1, 3)),
    ("block/inner_sees_outer", "x := {H:1}; y := { z := x + 1; { w := z + x; w } }; y", 3),
    ("block/redeclare_after_inner_use", "x := {H:1}; y := { a := x; x := {H:5}; (a, x) }; (x, y)", (1, (1, 5))),
    ("block/nested_three", "x := {H:1}; r := { x := x + 1; r2 := { x := x + 10; x }; (x, r2) }; (x, r)", (1, (2, 12))),
    ("if/body_scope", "x := {H:1}; if true { x := {H:5}; x } x", 1),
    ("if/else_scope", "x := {H:1}; c := {H:0}; if c > 0 { x := {H:5}; x } else { x := {H:6}; x } x", 1),
    ("while/body_scope", "i := mut 0; x := {H:1}; while *i < 2 { x := {H:9}; i += x } (x, *i)", (1, 9)),
    ("loop/body_scope", "i := mut 0; x := {H:1}; loop { x := x + 1; i += x; if *i > 3 { break } } (x, *i)", (1, 4)),
    ("for/variable_scope", "x := {H:1}; s := mut 0; for x in [5, 6]~ { s += x } (x, *s)", (1, 11)),
    ("for/body_scope", "y := {H:1}; s := mut 0; for x in [5, 6]~ { y := x * 2; s += y } (y, *s)", (1, 22)),
    ("match/type_binder_scope", "x := {H:1}; r := match {H:5} { x: int => x + 1, }; (x, r)", (1, 6)),
    ("match/arm_body_scope", "x := {H:1}; r := match {H:5} { 5 => { x := {H:7}; x }, => 0, }; (x, r)", (1, 7)),
    ("ifset/binder_scope", "x := {H:1}; r := if x: int = {H:7} { x } else { 0 }; (x, r)", (1, 7)),
    ("ifset/else_sees_outer", "x := {H:1}; u := (p: int | string) -> int | string { return p }; r := if x: string = u({H:3}) { 0 } else { x }; (x, r)", (1, 1)),
    ("whileset/binder_scope", "x := {H:1}; vals := [{H:4}, {H:5}, \"s\"]; i := mut 0; s := mut 0; while x: int = vals[*i] { s += x; i += 1 } (x, *s)", (1, 9)),
    ("fn/body_declarations_stay_inside", "v := {H:1}; f := () -> int { v := {H:99}; return v }; r := f(); (v, r)", (1, 99)),
    ("fn/param_shadows", "x := {H:1}; f := (x: int) -> int { return x + 1 }; (f({H:5}), x)", (6, 1)),
    ("fn/param_shadows_captured", "x := {H:1}; f := (x: int) -> int { g := () -> int { return x }; return g() }; (f({H:5}), x)", (5, 1)),
    ("fn/callee_names_do_not_leak_into_caller", "f := () -> int { a := {H:3}; b := a + 1; return b }; g := () -> (int, int) { a := {H:10}; r := f(); return (a, r) }; g()", (10, 4)),
    ("fn/nested_call_frames", "f := (n: int) -> int { t := n * 2; if n > 0 { u := f(n - 1); return t + u } return t }; f({H:3})", 12),
    ("capture/by_value_at_creation", "a := {H:1}; f := () -> int { return a }; a := {H:2}; (f(), a)", (1, 2)),
    ("capture/later_redeclaration_in_block", "a := {H:1}; f := () -> int { return a }; r := { a := {H:2}; f() }; (r, a)", (1, 1)),
    ("capture/value_not_name_in_loop", "fs := mut [() -> int { return 0 }; 0]; i := mut 0; while *i < 3 { k := *i; fs += [() -> int { return k }]; i += 1 } "
     "g := *fs; (g[0](), g[1](), g[2]())", (0, 1, 2)),
    ("capture/cell_shared", "c := mut {H:1}; f := () -> int { return *c }; c = 5; f()", 5),
    ("capture/cell_name_redeclared", "c := mut {H:1}; f := () -> int { return *c }; c := mut {H:7}; (f(), *c)", (1, 7)),
    ("capture/cell_written_inside", "c := mut {H:1}; f := () -> int { c += 1; return *c }; (f(), f(), *c)", (2, 3, 3)),
    ("capture/closure_in_closure", "a := {H:1}; mk := () -> () -> int { b := a + 1; return () -> int { return a + b } }; g := mk(); a := {H:10}; g()", 3),
    ("capture/parameter_captured", "mk := (n: int) -> () -> int { return () -> int { return n * 2 } }; g := mk({H:4}); h := mk({H:5}); (g(), h())", (8, 10)),
    ("capture/made_twice_independent", "mk := (n: int) -> () -> int { c := mut n; return () -> int { c += 1; return *c } }; g := mk({H:0}); h := mk({H:10}); (g(), g(), h(), g())", (1, 2, 11, 3)),
    ("capture/function_value_captured", "inc := (x: int) -> int { return x + 1 }; f := (x: int) -> int { return inc(inc(x)) }; inc := (x: int) -> int { return x - 1 }; (f({H:5}), inc({H:5}))", (7, 4)),
    ("recursion/by_name", "fact := (n: int) -> int { if n < 2 { return 1 } return n * fact(n - 1) }; fact({H:5})", 120),
    ("recursion/under_another_name", "fact := (n: int) -> int { if n < 2 { return 1 } return n * fact(n - 1) }; g := fact; fact := (n: int) -> int { return 0 }; (g({H:5}), fact({H:5}))", (120, 0)),
    ("recursion/passed_as_argument", "fact := (n: int) -> int { if n < 2 { return 1 } return n * fact(n - 1) }; app := (h: (int) -> int, v: int) -> int { fact := {H:3}; return h(v) + fact }; app(fact, {H:4})", 27),
    ("recursion/inside_function", "outer := () -> int { down := (n: int) -> int { if n == 0 { return 0 } return 1 + down(n - 1) }; return down({H:4}) }; outer()", 4),
    ("recursion/from_array", "down := (n: int) -> int { if n == 0 { return 0 } return 1 + down(n - 1) }; fs := [down]; down := (n: int) -> int { return 100 }; fs[0]({H:3})", 3),
    ("recursion/from_struct_field", "down := (n: int) -> int { if n == 0 { return 0 } return 1 + down(n - 1) }; s := struct{f := down}; (s.f)({H:2})", 2),
    ("operators/internals_do_not_clobber",
     "value := {H:70}; res := {H:71}; con := {H:72}; iterator := {H:73}; func := {H:75}; mapper := {H:76}; "
     "r := [1, 2, 3.5]~ ? int @ (x: int) -> int { return x + 1 } ? (x: int) -> bool { return x > 2 } $]; "
     "(r, value, res, con, iterator, func, mapper)", ([3], 70, 71, 72, 73, 75, 76)),
    ("operators/internals_inside_function",
     "main := (value: int, res: int, con: int) -> any { s := [1, 2]~ @ (x: int) -> int { return x * 2 } $+; t := [1, 2]~ $0 (a: int, b: int) -> int { return a + b }; return (s, t, value, res, con) }; main({H:100}, {H:200}, {H:300})",
     (6, 3, 100, 200, 300)),
    ("operators/callback_sees_its_own_scope", "k := {H:10}; r := [1, 2]~ @ (x: int) -> int { k := x * 100; return k + 1 } $]; (r, k)", ([101, 201], 10)),
    ("operators/for_over_mapped", "acc := {H:5}; s := mut 0; for v in [1, 2]~ @ (x: int) -> int { acc := x + 1; return acc } { s += v } (*s, acc)", (5, 5)),
    ("struct/field_names_are_not_variables", "a := {H:1}; s := struct{a := {H:5}, b := a}; (s.a, s.b, a)", (5, 1, 1)),
    ("tuple/destructure_scope", "a := {H:1}; r := { (a, b) := ({H:5}, {H:6}); a + b }; (a, r)", (1, 11)),
    # the binder shadows a name of an ENCLOSING scope (not of the scope the construct itself sits in)
    ("enclosing/ifset", "v := {H:9}; r := { q := if v: int = {H:1} { v + 1 } else { 0 }; (v, q) }; (v, r)", (9, (9, 2))),
    ("enclosing/ifset_in_loop", "v := {H:9}; i := mut 0; s := mut 0; while *i < 2 { q := if v: int = {H:1} { v } else { 0 }; s += v + q; i += 1 } (v, *s)", (9, 20)),
    ("enclosing/ifset_in_function", "v := {H:9}; f := (v: int) -> (int, int) { q := { if v: int = {H:1} { v } else { 0 } }; return (v, q) }; (v, f({H:4}))", (9, (4, 1))),
    ("enclosing/match_binder", "v := {H:9}; r := { q := match {H:1} { v: int => v + 1, }; (v, q) }; (v, r)", (9, (9, 2))),
    ("enclosing/for_variable", "v := {H:9}; r := { s := mut 0; for v in [1, 2]~ { s += v } (v, *s) }; (v, r)", (9, (9, 3))),
    ("enclosing/whileset", "v := {H:9}; vals := [{H:4}, \"s\"]; r := { i := mut 0; s := mut 0; while v: int = vals[*i] { s += v; i += 1 } (v, *s) }; (v, r)", (9, (9, 4))),
    ("enclosing/block_redeclare_then_read_outer", "v := {H:9}; r := { a := { v := {H:1}; v }; (v, a) }; (v, r)", (9, (9, 1))),
    ("enclosing/loop_body_redeclare", "v := {H:9}; i := mut 0; t := mut 0; loop { t += v; v := v + 100; i += 1; if *i > 2 { break } } (v, *t)", (9, 27)),
    ("enclosing/loop_closure_per_iteration", "v := {H:9}; fs := mut [() -> int { return 0 }; 0]; i := mut 0; loop { fs += [() -> int { return v }]; v := v + *i + 100; i += 1; if *i > 2 { break } } "
     "g := *fs; (g[0](), g[1](), g[2](), v)", (9, 9, 9, 9)),
    ("enclosing/while_true_body_redeclare", "v := {H:9}; i := mut 0; t := mut 0; while true { t += v; v := v + 100; i += 1; if *i > 2 { break } } (v, *t)", (9, 27)),
    ("operators/type_filter_names", "default := {H:42}; iterator := {H:43}; r := [1, 2.5]~ ? int $]; (r, default, iterator)", ([1], 42, 43)),
    ("operators/type_filter_names_as_parameters", "f := (default: int, iterator: int) -> any { r := [1, 2.5]~ ? int $]; return (r, default, iterator) }; f({H:42}, {H:43})", ([1], 42, 43)),
    ("destructure/redeclare_constant", "a := {H:5}; (a, b) := ({H:10}, {H:20}); f := () -> int { return a + b }; (a, b, f())", (10, 20, 30)),
    ("destructure/redeclare_in_block", "a := {H:5}; r := { (a, b) := ({H:10}, {H:20}); a + b }; (a, r)", (5, 30)),
    ("mod/members", "m := mod { x := {H:5}; y := x + 1 }; (m.x, m.y)", (5, 6)),
    ("mod/shadow", "x := {H:1}; m := mod { x := {H:5}; z := x * 2 }; (x, m.x, m.z)", (1, 5, 10)),
    ("mod/sees_outer", "k := {H:3}; m := mod { y := k + 1 }; (k, m.y)", (3, 4)),
    ("mod/function_member_captures", "k := {H:3}; m := mod { f := (a: int) -> int { return a + k } }; k := {H:100}; (m.f)({H:1})", 4),
    ("set/rhs_sees_previous_binding", "x := {H:1}; x := x + 1; x := x * 10; x", 20),
    # round k, C06-k1: the callee frame bound the function's own name AFTER the parameters
    ("fn/parameter_named_like_the_function", "p := (p: int) -> int { return p + {H:1} }; h := p; ap := (g: (int) -> int, v: int) -> int { return g(v) }; (p(3), h(4), ap(p, 5))", (4, 5, 6)),
    ("fn/parameter_named_like_the_function_captured", "p := (p: int) -> () -> int { return () -> int { return p * {H:2} } }; q := p(3); (q(), p(4)())", (6, 8)),
    ("fn/recursive_parameter_shadowing_other_function", "g := (n: int) -> int { return n + {H:100} }; f := (g: int) -> int { if g < 1 { return 0 } return g + f(g - 1) }; (f(3), g(1))", (6, 101)),
    ("set/rhs_of_redeclaration_in_block", "x := {H:1}; r := { x := x + 1; x }; (x, r)", (1, 2)),
]
REJECT = [
    ("reject/use_after_block", "{ q := {H:1}; q } q"),
    ("reject/use_after_if", "if true { q := {H:1}; q } q"),
    ("reject/use_after_loop", "i := mut 0; while *i < 1 { q := {H:1}; i += q } q"),
    ("reject/use_after_for", "for e in [1]~ { q := e } q"),
    ("reject/for_variable_after", "for e in [1]~ { } e"),
    ("reject/match_binder_after", "r := match {H:5} { b: int => b, }; b"),
    ("reject/ifset_binder_after", "r := if b: int = {H:5} { b } else { 0 }; b"),
    ("reject/function_local_after_call", "f := () -> int { inner := {H:3}; return inner }; r := f(); inner"),
    ("reject/parameter_after_call", "f := (p: int) -> int { return p }; r := f({H:3}); p"),
    ("reject/callee_does_not_see_callers_locals", "f := () -> int { return hidden }; g := () -> int { hidden := {H:5}; return f() }; g()"),
    ("reject/module_member_after", "m := mod { q := {H:1} }; q"),
    ("reject/use_before_declaration", "y := later + 1; later := {H:1}; y"),
    ("reject/use_before_declaration_in_function", "f := () -> int { return later }; later := {H:1}; f()"),
    ("reject/iterator_internal_names", "r := [1, 2]~ @ (x: int) -> int { return x } $]; (res, con)"),
]

# One-statement scopes (round j, C06-j1: a "fast path" that folds a single-statement block in the enclosing layer): each
# construct holds exactly ONE declaration, of a name that is a parameter of the (enclosing) function - neither a literal nor a
# run-time cell, so the folding pass knows it only inside a call - and the name is used after the construct.
ONE = [
    ("block", "{ x := {H:0} }"),
    ("nested_block", "{ { x := {H:0} } }"),
    ("block_fn_decl", "{ x := () -> int { return {H:0} } }"),
    ("block_destructuring", "{ (x, y) := ({H:0}, {H:1}) }"),
    ("if", "if x > 0 { x := {H:0} }"),
    ("if_else", "if x < 0 { x := {H:1} } else { x := {H:0} }"),
    ("while", "k := mut 0; while *k < 1 { k += 1; x := {H:0} }"),
    ("while_single", "k := mut 0; while *k < 1 { x := { k += 1; {H:0} } }"),
    ("for", "for e in [1]~ { x := {H:0} }"),
    ("ifset", "if x: int = {H:0} { }"),
    ("ifset_body", "if q: int = {H:0} { x := q }"),
    ("match_arm", "match {H:5} { 5 => { x := {H:0} }, => { }, }"),
    ("match_binder", "match {H:0} { x: int => { }, }"),
]


def _fill(prog, hidden):
    import re
    return re.sub(r"\{H:(-?\d+)\}", (lambda m: f"*(mut {m.group(1)})") if hidden else (lambda m: m.group(1)), prog)


def fam_scope(tier, seed, extra=()):
    out = []
    for sid, prog, exp in S:
        for hidden in (False, True):
            p = _fill(prog, hidden)
            tag = "hidden" if hidden else "literal"
            out.append(Case(f"scope/{sid}/{tag}/top", p, exp, what="top level"))
            # the same statements as the body of a function
            stmts = p.rsplit(";", 1) if ";" in p else None
            body = p
            # last expression is the result: split at the last top-level ';' or '}' boundary is fragile - wrap as a block value instead
            out.append(Case(f"scope/{sid}/{tag}/fn", "main := () -> any { r__ := { " + p + " }; return r__ }; main()", exp, what="inside a function"))
    for sid, prog in REJECT:
        for hidden in (False, True):
            p = _fill(prog, hidden)
            out.append(Case(f"scope/{sid}/{'hidden' if hidden else 'literal'}", p, Rejected(), what="must be rejected: the name is not in scope"))
            out.append(Case(f"scope/{sid}/{'hidden' if hidden else 'literal'}/fn", "main := () -> any { r__ := { " + p + " }; return r__ }; main()", Rejected(),
                            what="must be rejected: the name is not in scope (inside a function)"))
    for sid, stmt in ONE:
        for hidden in (False, True):
            c = _fill(stmt, hidden)
            tag = "hidden" if hidden else "literal"
            out.append(Case(f"scope/one/{sid}/{tag}/closure",
                            "make := (x: int) -> () -> int { return () -> int { " + c + " return x; }; }; f := make(7); g := make(8); (f(), g(), f())", (7, 8, 7),
                            what="one-statement scope inside a closure; the name is the enclosing function's parameter"))
            out.append(Case(f"scope/one/{sid}/{tag}/fn", "f := (x: int) -> int { " + c + " return x; }; (f(7), f(8))", (7, 8),
                            what="one-statement scope inside a function; the name is its parameter"))
            out.append(Case(f"scope/one/{sid}/{tag}/nested_fn",
                            "outer := (x: int) -> int { inner := () -> int { " + c + " return x + 1; }; return inner() + x; }; (outer(7), outer(1))", (15, 3),
                            what="one-statement scope inside a nested function declaration"))
    # REPL-style: one interpreter, several steps
    steps = [
        (["x := 1", "{ x := 2; x }", "x"], [1, 2, 1]),
        (["a := *(mut 1)", "f := () -> int { return a }", "a := *(mut 2)", "(f(), a)"], [1, None, 2, (1, 2)]),
        (["c := mut 1", "f := () -> int { c += 1; return *c }", "f()", "c := mut 50", "(f(), *c)"], [None, None, 2, None, (3, 50)]),
        (["fact := (n: int) -> int { if n < 2 { return 1 } return n * fact(n - 1) }", "g := fact", "fact := (n: int) -> int { return 0 }", "(g(5), fact(5))"],
         [None, None, None, (120, 0)]),
        (["v := *(mut 7)", "r := [1, 2]~ @ (x: int) -> int { v := x; return v } $]", "(r, v)"], [7, [1, 2], ([1, 2], 7)]),
        (["it := () -> (bool, int) { x := 5; return (false, x) }", "x := *(mut 1)", "r := it $]", "(r, x)"], [None, 1, [], ([], 1)]),
    ]
    for k, (st, exps) in enumerate(steps):
        out.append(Case(f"scope/steps/{k}", STEP_SEP.join(st), Steps(exps), {}, "steps", what="REPL-style: one interpreter, several parse+run steps"))
    return out
