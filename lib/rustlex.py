"""Minimal Rust lexer + item locator used by the extractor.

It does not parse Rust; it tokenises just enough (comments, string/char literals,
lifetimes, raw strings, brackets) to find an item by a path of scopes and to
brace-match its extent.  Everything it returns is a *byte-for-byte slice* of the
source text, so the verified text is the text that is compiled.
"""
import re
from dataclasses import dataclass


class ExtractError(Exception):
    """The anchor of a function under contract was lost (renamed, moved, reshaped).
    The driver turns this into UNDECIDED (exit 2), never into a violation."""


@dataclass
class Tok:
    kind: str   # ident | punct | lit | lifetime | open | close
    text: str
    start: int
    end: int


_ident = re.compile(r"[A-Za-z_][A-Za-z0-9_]*")
_num = re.compile(r"[0-9][0-9A-Za-z_]*(\.[0-9][0-9A-Za-z_]*)?")


def lex(src: str):
    toks = []
    i, n = 0, len(src)
    while i < n:
        c = src[i]
        if c.isspace():
            i += 1
            continue
        if src.startswith("//", i):
            j = src.find("\n", i)
            i = n if j < 0 else j
            continue
        if src.startswith("/*", i):
            depth, j = 1, i + 2
            while j < n and depth:
                if src.startswith("/*", j):
                    depth += 1
                    j += 2
                elif src.startswith("*/", j):
                    depth -= 1
                    j += 2
                else:
                    j += 1
            i = j
            continue
        # raw strings r"..." r#"..."# (also br)
        m = re.match(r"b?r(#*)\"", src[i:i + 40])
        if m:
            hashes = m.group(1)
            endpat = '"' + hashes
            j = src.find(endpat, i + len(m.group(0)))
            if j < 0:
                raise ExtractError("unterminated raw string")
            j += len(endpat)
            toks.append(Tok("lit", src[i:j], i, j))
            i = j
            continue
        if c == '"' or (c == 'b' and i + 1 < n and src[i + 1] == '"'):
            j = i + (2 if c == 'b' else 1)
            while j < n and src[j] != '"':
                j += 2 if src[j] == "\\" else 1
            j += 1
            toks.append(Tok("lit", src[i:j], i, j))
            i = j
            continue
        if c == "'":
            # char literal or lifetime
            m = re.match(r"'(\\.[^']*|[^'\\])'", src[i:i + 16])
            if m:
                j = i + len(m.group(0))
                toks.append(Tok("lit", src[i:j], i, j))
                i = j
                continue
            m = _ident.match(src, i + 1)
            if m:
                toks.append(Tok("lifetime", src[i:m.end()], i, m.end()))
                i = m.end()
                continue
            toks.append(Tok("punct", c, i, i + 1))
            i += 1
            continue
        m = _ident.match(src, i)
        if m:
            # raw identifiers r#loop
            toks.append(Tok("ident", m.group(0), i, m.end()))
            i = m.end()
            if m.group(0) == "r" and src.startswith("#", i):
                m2 = _ident.match(src, i + 1)
                if m2:
                    toks[-1] = Tok("ident", "r#" + m2.group(0), toks[-1].start, m2.end())
                    i = m2.end()
            continue
        m = _num.match(src, i)
        if m:
            toks.append(Tok("lit", m.group(0), i, m.end()))
            i = m.end()
            continue
        if c in "([{":
            toks.append(Tok("open", c, i, i + 1))
        elif c in ")]}":
            toks.append(Tok("close", c, i, i + 1))
        else:
            toks.append(Tok("punct", c, i, i + 1))
        i += 1
    return toks


def match_close(toks, k):
    """index of the close bracket matching the open bracket at toks[k]"""
    assert toks[k].kind == "open", toks[k]
    depth = 0
    for j in range(k, len(toks)):
        if toks[j].kind == "open":
            depth += 1
        elif toks[j].kind == "close":
            depth -= 1
            if depth == 0:
                return j
    raise ExtractError("unbalanced brackets")


def _scope_items(toks, lo, hi):
    """yield (kind, name_tokens_text, header_start_idx, body_open_idx, body_close_idx)
    for mod / impl / fn items found directly in toks[lo:hi] (depth 0 relative)."""
    k = lo
    while k < hi:
        t = toks[k]
        if t.kind == "open":
            k = match_close(toks, k) + 1
            continue
        if t.kind == "ident" and t.text in ("mod", "fn", "impl", "enum", "struct", "trait"):
            # find the body '{' or terminating ';' at depth 0 (skipping (...) <...> [...] groups)
            j = k + 1
            body_open = None
            while j < hi:
                tj = toks[j]
                if tj.kind == "open":
                    if tj.text == "{":
                        body_open = j
                        break
                    j = match_close(toks, j) + 1
                    continue
                if tj.kind == "punct" and tj.text == ";":
                    break
                j += 1
            if body_open is None:
                k = j + 1
                continue
            body_close = match_close(toks, body_open)
            header = " ".join(x.text for x in toks[k + 1:body_open])
            yield (t.text, header, k, body_open, body_close)
            k = body_close + 1
            continue
        k += 1


def _norm(s):
    return re.sub(r"\s+", " ", s).strip()


def find_item(src, path):
    """path: list of selectors; each selector is one of
         ("mod", name) ("impl", "Trait for Type" | "Type") ("fn", name) ("enum", name) ("struct", name)
       returns dict(start, end, body_open, body_close, attrs_start) as character offsets
       of the LAST selector's item (start = the keyword position incl. leading pub/attrs)."""
    toks = lex(src)
    lo, hi = 0, len(toks)
    found = None
    for sel_kind, sel_name in path:
        found = None
        for kind, header, k, bo, bc in _scope_items(toks, lo, hi):
            if kind != sel_kind:
                continue
            if kind == "fn":
                name = header.split(" ", 1)[0]
                name = name.split("<")[0].split("(")[0]
                ok = name == sel_name
            elif kind in ("mod", "enum", "struct", "trait"):
                ok = header.split(" ")[0] == sel_name
            else:  # impl
                h = _norm(re.sub(r"\s*([<>:,&'])\s*", r"\1", header))
                s = _norm(re.sub(r"\s*([<>:,&'])\s*", r"\1", sel_name))
                # drop generic parameter list directly after impl
                h2 = re.sub(r"^<[^>]*>\s*", "", h)
                ok = h == s or h2 == s
            if ok:
                if found is not None:
                    raise ExtractError(f"ambiguous item {sel_kind} {sel_name}")
                found = (k, bo, bc)
        if found is None:
            raise ExtractError(f"item not found: {sel_kind} {sel_name} (path {path})")
        k, bo, bc = found
        lo, hi = bo + 1, bc
    k, bo, bc = found
    # walk back over `pub`, `pub(crate)`, `unsafe`, `const`, attributes `#[...]`
    s = k
    while s > 0:
        p = toks[s - 1]
        if p.kind == "ident" and p.text in ("pub", "unsafe", "const", "async", "extern"):
            s -= 1
            continue
        if p.kind == "close" and p.text == ")" and s >= 3:
            # pub(crate)
            o = s - 1
            depth = 0
            while o >= 0:
                if toks[o].kind == "close":
                    depth += 1
                elif toks[o].kind == "open":
                    depth -= 1
                    if depth == 0:
                        break
                o -= 1
            if o >= 1 and toks[o - 1].kind == "ident" and toks[o - 1].text == "pub":
                s = o - 1
                continue
        break
    vis_start = s
    # attributes
    a = s
    while a >= 2 and toks[a - 1].kind == "close" and toks[a - 1].text == "]":
        o = a - 1
        depth = 0
        while o >= 0:
            if toks[o].kind == "close":
                depth += 1
            elif toks[o].kind == "open":
                depth -= 1
                if depth == 0:
                    break
            o -= 1
        if o >= 1 and toks[o - 1].kind == "punct" and toks[o - 1].text == "#":
            a = o - 1
        else:
            break
    return dict(
        attrs_start=toks[a].start,
        start=toks[vis_start].start,
        kw=toks[k].start,
        body_open=toks[bo].start,
        body_close=toks[bc].end,
        end=toks[bc].end,
    )


def parse_duplicate_table(attr_text):
    """#[duplicate_item( a b c; [x] [y] [z]; [..] [..] [..]; )] -> (names, rows)"""
    m = re.search(r"duplicate_item\s*\(", attr_text)
    if not m:
        raise ExtractError("no duplicate_item attribute where one was expected")
    toks = lex(attr_text)
    # find the '(' after duplicate_item
    k = next(i for i, t in enumerate(toks) if t.kind == "ident" and t.text == "duplicate_item") + 1
    close = match_close(toks, k)
    names, rows, cur = [], [], []
    j = k + 1
    header_done = False
    while j < close:
        t = toks[j]
        if not header_done:
            if t.kind == "ident":
                names.append(t.text)
            elif t.kind == "punct" and t.text == ";":
                header_done = True
            j += 1
            continue
        if t.kind == "open" and t.text == "[":
            c = match_close(toks, j)
            cur.append(attr_text[toks[j].end:toks[c].start].strip())
            j = c + 1
            continue
        if t.kind == "punct" and t.text == ";":
            if cur:
                rows.append(cur)
            cur = []
        j += 1
    if cur:
        rows.append(cur)
    for r in rows:
        if len(r) != len(names):
            raise ExtractError("duplicate_item row arity mismatch")
    return names, rows


def substitute_idents(text, mapping):
    """token-level identifier substitution (what duplicate_item does)"""
    out, last = [], 0
    for t in lex(text):
        if t.kind == "ident" and t.text in mapping:
            out.append(text[last:t.start])
            out.append(mapping[t.text])
            last = t.end
    out.append(text[last:])
    return "".join(out)


def expand_match_any(text):
    """match_any! { scrutinee, p1 | p2 => e, ... }  ->  match scrutinee { p1 => e, p2 => e, ... }
    (the documented expansion of the match_any crate: one arm per top-level alternative)."""
    while True:
        toks = lex(text)
        idx = None
        for i, t in enumerate(toks):
            if (t.kind == "ident" and t.text == "match_any" and i + 2 < len(toks)
                    and toks[i + 1].text == "!" and toks[i + 2].kind == "open"):
                idx = i
                break
        if idx is None:
            return text
        o = idx + 2
        c = match_close(toks, o)
        inner = toks[o + 1:c]
        # scrutinee up to first top-level comma
        depth = 0
        k = 0
        while k < len(inner):
            t = inner[k]
            if t.kind == "open":
                depth += 1
            elif t.kind == "close":
                depth -= 1
            elif depth == 0 and t.kind == "punct" and t.text == ",":
                break
            k += 1
        if k >= len(inner):
            raise ExtractError("match_any!: no scrutinee")
        scrut = text[inner[0].start:inner[k - 1].end]
        arms = []
        k += 1
        while k < len(inner):
            # pattern until top-level '=>'
            ps = k
            depth = 0
            while k < len(inner):
                t = inner[k]
                if t.kind == "open":
                    depth += 1
                elif t.kind == "close":
                    depth -= 1
                elif (depth == 0 and t.text == "=" and k + 1 < len(inner) and inner[k + 1].text == ">"
                      and inner[k + 1].start == t.end):
                    break
                k += 1
            if k >= len(inner):
                if ps < len(inner):
                    raise ExtractError("match_any!: arm without =>")
                break
            pat_toks = inner[ps:k]
            k += 2
            es = k
            depth = 0
            # body: a block `{...}` (optional trailing comma) or expr up to top-level comma
            if k < len(inner) and inner[k].kind == "open" and inner[k].text == "{":
                # find its close within inner
                d = 0
                j = k
                while j < len(inner):
                    if inner[j].kind == "open":
                        d += 1
                    elif inner[j].kind == "close":
                        d -= 1
                        if d == 0:
                            break
                    j += 1
                # a block may still be followed by e.g. `.into()`; continue to comma
                k = j + 1
            while k < len(inner):
                t = inner[k]
                if t.kind == "open":
                    depth += 1
                elif t.kind == "close":
                    depth -= 1
                elif depth == 0 and t.kind == "punct" and t.text == ",":
                    break
                k += 1
            body = text[inner[es].start:inner[k - 1].end]
            k += 1
            # split pattern at top-level '|' (not '||')
            alts, cur_s, depth = [], 0, 0
            for q, t in enumerate(pat_toks):
                if t.kind == "open":
                    depth += 1
                elif t.kind == "close":
                    depth -= 1
                elif depth == 0 and t.kind == "punct" and t.text == "|":
                    alts.append(pat_toks[cur_s:q])
                    cur_s = q + 1
            alts.append(pat_toks[cur_s:])
            for a in alts:
                if not a:
                    continue
                arms.append((text[a[0].start:a[-1].end], body))
        new = "match " + scrut + " {\n" + "".join(f"            {p} => {b},\n" for p, b in arms) + "        }"
        text = text[:toks[idx].start] + new + text[toks[c].end:]


def find_semi_item(src, kind, name):
    """top-level `type NAME ... ;` / `struct NAME(...);` items (terminated by ';'), returns text incl. `pub`"""
    toks = lex(src)
    k = 0
    depth = 0
    while k < len(toks):
        t = toks[k]
        if t.kind == "open":
            k = match_close(toks, k) + 1
            continue
        if t.kind == "ident" and t.text == kind and k + 1 < len(toks) and toks[k + 1].text == name:
            j = k + 2
            while j < len(toks) and not (toks[j].kind == "punct" and toks[j].text == ";"):
                if toks[j].kind == "open":
                    if toks[j].text == "{":
                        raise ExtractError(f"{kind} {name}: brace body where ';' item expected")
                    j = match_close(toks, j)
                j += 1
            s = k
            if s > 0 and toks[s - 1].kind == "ident" and toks[s - 1].text == "pub":
                s -= 1
            return src[toks[s].start:toks[j].end]
        k += 1
    raise ExtractError(f"item not found: {kind} {name}")
