"""Probe families for C13 (mutable cells): fixed scenarios and random aliasing programs with a reference heap.

The oracle is a Python model of what docs/ and the property statement say about cells: `mut e` allocates a fresh cell;
bindings, array / tuple / struct elements, closure captures and arguments alias it; `c = v` stores v and yields v;
`c op= v` evaluates the target, then v, then reads the content, stores and yields `content op v`, and leaves the cell
alone when op fails.  It shares no code with /repo.
"""
import random

from probes import (Case, Err, ErrOrEarly, Steps, STEP_SEP, Rejected, int_op, MIN, MAX, E_ZDIV, E_ZMOD, E_SHIFT, E_NEGEXP)

OPS_TOTAL = ["+", "-", "*", "&", "|", "^"]
OPS_FALLIBLE = ["/", "%", "<<", ">>", "**"]


def fixed_cases():
    out = []

    def add(prog, exp, what, mode="nostd"):
        if prog is None:
            return
        out.append(Case(f"cells/fixed/{len(out)}", prog, exp, {}, mode, what))

    # ---- fresh cell at every evaluation of `mut`
    add("mk := () -> mut int { return mut 0 }; a := mk(); b := mk(); a = 5; (*a, *b)", (5, 0), "fresh cell per call")
    add("total := mut 0; i := mut 0; while *i < 3 { c := mut 0; c += 1; total += *c; i += 1 }; *total", 3,
        "fresh cell per loop iteration (top level)")
    add("f := () -> int { total := mut 0; i := mut 0; while *i < 3 { c := mut 0; c += 1; total += *c; i += 1 }; return *total }; f()",
        3, "fresh cell per loop iteration (function body)")
    add("keep := mut (mut 0, mut 0); i := mut 0; while *i < 2 { c := mut 0; if *i == 0 { keep = (c, (*keep).1) } else "
        "{ keep = ((*keep).0, c) }; i += 1 }; (*keep).0 = 7; (*((*keep).0), *((*keep).1))", (7, 0),
        "cells made in different iterations do not alias")
    add("i := mut 0; s := mut 0; loop { if *i >= 3 { break }; c := mut 10; c -= *i; s += *c; i += 1 }; *s", 27,
        "fresh cell per iteration of `loop`")
    add("a := [mut 0; 2]; a[0] = 5; (*a[0], *a[1])", (5, 5), "array-repeat evaluates `mut` once: both elements alias")
    add("a := [mut 0, mut 0]; a[0] = 5; (*a[0], *a[1])", (5, 0), "two `mut` expressions, two cells")
    # ---- aliasing
    add("a := mut 1; b := a; b = 2; *a", 2, "binding copies alias")
    add("a := mut 1; arr := [a, a]; arr[0] = 3; (*a, *arr[1])", (3, 3), "array elements alias")
    add("a := mut 1; s := struct{f := a}; s.f = 4; *a", 4, "struct field aliases")
    add("a := mut 1; t := (a, 2); t.0 = 6; *a", 6, "tuple element aliases")
    add("a := mut 1; f := () { a = 9 }; f(); *a", 9, "closure capture aliases")
    add("a := mut 1; f := () -> int { return *a }; a = 8; f()", 8, "closure sees later writes to a captured cell")
    add("a := mut 1; set := (m: mut int) { m = 4 }; set(a); *a", 4, "argument aliases")
    add("a := mut 1; p := mut a; q := *p; q = 5; (*a, *(*p))", (5, 5), "cell inside a cell aliases")
    add("a := mut 1; b := mut 2; p := mut a; p = b; (*p) = 7; (*a, *b)", (1, 7), "re-pointing an outer cell")
    add("a := mut 1; g := () -> mut int { return a }; g() = 3; *a", 3, "cell returned from a function aliases")
    add("a := mut [1, 2]; b := a; b = [3]; *a", [3], "cells of array type")
    add("a := mut 1; b := mut 1; (a == b, a == a, [a] == [a], [a] == [b])", (False, True, True, False), "identity")
    # ---- value yielded and stored
    add("c := mut 1; r := (c = 5); (r, *c)", (5, 5), "`=` stores and yields v")
    add("c := mut 1; r := (c += (c = 10)); (r, *c)", (20, 20), "content read at the moment of the update, after v")
    add("c := mut 3; r := (c *= (c += 1)); (r, *c)", (16, 16), "content read after the right operand was evaluated")
    add("c := mut 2; d := c; r := (c += (d = 40)); (r, *c, *d)", (80, 80, 80), "update through an alias in the right operand")
    add("c := mut 1; f := (m: mut int) -> int { m += 1; return 10 }; r := (c += f(c)); (r, *c)", (12, 12),
        "callee writes the target before the update")
    add("c := mut 5; r := (c -= 2) + (c *= 3); (r, *c)", (12, 9), "two updates in one expression, left to right")
    add("c := mut true; r := (c &= false); (r, *c)", (False, False), "bool &=")
    add("c := mut true; r := (c ^= true); (r, *c)", (False, False), "bool ^=")
    add("c := mut false; r := (c |= true); (r, *c)", (True, True), "bool |=")
    add("c := mut 1.5; r := (c += 2.25); (r, *c)", (3.75, 3.75), "float +=")
    add("c := mut 1.5; r := (c *= 2.0); (r, *c)", (3.0, 3.0), "float *=")
    add("c := mut 7.0; r := (c /= 2.0); (r, *c)", (3.5, 3.5), "float /=")
    add("c := mut 2.0; r := (c -= 0.5); (r, *c)", (1.5, 1.5), "float -=")
    inf = float("inf")
    add("c := mut 0.0; r := (c = 0.0 * (0.0 - 1.0)); (1.0 / r, 1.0 / *c)", (-inf, -inf), "storing -0.0 over 0.0 is a change")
    add("c := mut 0.0; r := (c *= 0.0 - 1.0); (1.0 / r, 1.0 / *c)", (-inf, -inf), "0.0 *= -1.0 stores -0.0")
    add("c := mut (0.0 * (0.0 - 1.0)); r := (c += 0.0); (1.0 / r, 1.0 / *c)", (inf, inf), "-0.0 += 0.0 stores +0.0")
    add("c := mut (0.0 * (0.0 - 1.0)); r := (c -= 0.0 * (0.0 - 1.0)); (1.0 / r, 1.0 / *c)", (inf, inf), "-0.0 -= -0.0 stores +0.0")
    add("c := mut [0.0]; c = [0.0 * (0.0 - 1.0)]; 1.0 / (*c)[0]", -inf, "storing [-0.0] over [0.0] is a change")
    add("c := mut (0.0, 1); c = (0.0 * (0.0 - 1.0), 1); 1.0 / (*c).0", -inf, "storing (-0.0, 1) over (0.0, 1) is a change")
    add("c := mut [1]; c = [0; 0]; d := c; d = []; (*c == [], *c)", (True, []), "storing an empty array over an array")
    add("c := mut 5; r := (c = 5); d := c; d += 0; (r, *c)", (5, 5), "storing an equal value")
    # the run-time type of a cell is its DECLARED type, whatever it holds at the moment
    add("a := mut int|float 1; f := (v: any) -> int { return if x: mut int = v { 1 } else { 2 } }; f(a)", 2, "mut int|float holding an int is not a mut int")
    add("a := mut any 1; f := (v: any) -> int { return match v { x: mut int => 1, y: mut any => 2, => 3, } }; f(a)", 2, "mut any holding an int is not a mut int")
    add("a := mut int|float 1; b := mut 1; f := (v: any) -> int { return if x: mut int = v { 1 } else { 2 } }; (f(a), f(b))", (2, 1), "declared type decides")
    add("a := mut int|float 1; f := (v: any) -> any { if x: mut int = v { a = 2.5; return *x } return 0 - 1 }; f(a)", -1,
        "a narrowed alias of a wider cell would let a float into a mut int")
    add("a := mut int|float 1; cells := [a]~ ? mut int $]; std.len(cells)", 0, "type filter on a cell of wider type", mode="std")
    add("a := mut int|float 1; f := (v: mut int | mut (int|float)) -> int { return match v { x: mut int => 1, => 2, } }; f(a)", 2, "match on the declared cell type")
    add("c := mut [1]; c += [2]; d := c; d += [3]; *c", [1, 2, 3], "+= on an array cell")
    add("c := mut \"a\"; c += \"b\"; *c", "ab", "+= on a string cell")
    add("c := mut [1.5]; c += [2]; *c", [1.5, 2], "an [int] appended to a mut [int|float]... if accepted") if False else None
    add("c := mut int|float 1; c = 2.5; *c", 2.5, "cell of union type takes either member")
    add("c := mut int|float 1; c = 2.5; c = 3; *c", 3, "cell of union type takes either member, back again")
    add("c := mut any 1; c = \"s\"; *c", "s", "cell of type any")
    # ---- typed content: what the checker must reject
    for prog, what in [
        ("c := mut 1; cells := [c, mut 2.5]; cells[0] = 3.5", "write through an element of [mut int, mut float]"),
        ("c := mut 1; cells := [c, mut 2.5]; cells[1] = 3", "int into the mut float element of [mut int, mut float]"),
        ("c := mut 1; w := (m: mut int | mut float) { m = 2.5 }; w(c)", "write through a parameter typed mut int | mut float"),
        ("c := mut [1]; c += [2.5]", "[float] appended to a mut [int]"),
        ("c := mut [1]; c += [\"x\"]", "[string] appended to a mut [int]"),
        ("c := mut [1]; w := (m: mut [int]) { m += [2.5] }; w(c)", "[float] appended through an alias"),
        ("c := mut \"s\"; c += 1", "int appended to a mut string"),
        ("c := mut 1; c = 2.5", "float into mut int"),
        ("c := mut 1; c += 2.5", "int += float"),
        ("c := mut 1.5; c += 1", "float += int"),
        ("c := mut 1; c = true", "bool into mut int"),
        ("c := mut 1; w := (m: mut (int|float)) { m = 2.5 }; w(c); *c", "mut int passed as mut (int|float)"),
        ("c := mut 1; w := (m: mut any) { m = \"s\" }; w(c); *c", "mut int passed as mut any"),
        ("c := mut 1; f := () -> mut (int|float) { return c }; f() = 2.5; *c", "mut int returned as mut (int|float)"),
        ("c := mut 1; d := mut int|float 2; p := mut d; p = c", "mut int stored where mut (int|float) is expected"),
        ("c := mut [1]; c = [1.5]", "[float] into mut [int]"),
        ("c := mut int|float 1; c += 1", "compound assignment on a cell of union type"),
        ("c := 1; c = 2", "assignment to a non-cell"),
        ("c := mut true; c += true", "bool +="),
        ("c := mut 1.5; c &= 1.5", "float &="),
        ("c := mut 1.5; c <<= 1", "float <<="),
    ]:
        add(prog, Rejected(), "must be rejected: " + what)
    # ---- typed content through JOINS: a value that is one of two cells of different types (if / match / function result /
    # tuple or array element) is not a cell that takes either content
    _prods = [("if", "x := if p { a } else { b };"), ("match", "x := match p { true => a, => b, };"),
              ("tuple", "t := (a, b); x := if p { t.0 } else { t.1 };"), ("array", "x := [a, b][if p { 0 } else { 1 }];"),
              ("fn_result", "x := pick(p);"), ("block", "x := { if p { a } else { b } };")]
    _writes = [("assign_float", "x = 7.5"), ("assign_int", "x = 7"), ("compound", "x += 1"), ("pass_mut_union", "w(x)")]
    _ctx = ("a := mut 1; b := mut 2.5; w := (m: mut (int|float)) { m = 0.5 }; "
            "pick := (q: bool) -> mut int | mut float { if q { return a } return b }; ")
    for pn, ptxt in _prods:
        for wn, wtxt in _writes:
            add(_ctx + f"f := (p: bool) -> any {{ {ptxt} {wtxt}; return (*a, *b) }}; f(true)", Rejected(),
                f"must be rejected: write ({wn}) through a join of mut int and mut float ({pn})")
        # reading through the join is fine
    add(_ctx + "f := (p: bool) -> any { x := if p { a } else { a }; x = 9; return (*a, *b) }; f(true)", (9, 2.5),
        "join of two mut int cells can be written")
    # ---- every compound operator on boundary operands: stores and yields content op v
    vals = [0, 1, -1, 2, 3, -7, 63, 64, 1 << 32, MAX, MIN]
    for op in OPS_TOTAL + OPS_FALLIBLE:
        for a in vals:
            for b in vals:
                if op == "**" and b > 70:
                    continue
                r = int_op(op, a, b)
                # operands hidden behind cells so that nothing is folded; wrapped in a function so that an error ends it
                prog = (f"f := (x: int, y: int) -> (int, int, int) {{ c := mut x; d := c; r := (c {op}= y); return (r, *c, *d) }}; "
                        f"f(*(mut {lit(a)}), *(mut {lit(b)}))")
                add(prog, r if isinstance(r, Err) else (r, r, r), f"compound {op}= stores and yields")
    return out


def lit(n):
    if n == MIN:
        return "(-9223372036854775807 - 1)"
    return f"({n})" if n < 0 else str(n)


def error_steps():
    """the failing compound assignment leaves the cell alone (observed by a host that keeps the interpreter: REPL style)"""
    out = []
    bad = {"/": (0, E_ZDIV), "%": (0, E_ZMOD), "<<": (64, E_SHIFT), ">>": (-1, E_SHIFT), "**": (-1, E_NEGEXP)}
    k = 0
    for op, (rhs, kind) in bad.items():
        for content in (4, -9, MAX):
            for shape, read in (("c := mut {v}; z := mut {r}", "*c"), ("c := mut {v}; a := [c]; z := mut {r}", "*a[0]"),
                                ("c := mut {v}; s := struct{{f := c}}; z := mut {r}", "(*s.f, *c)")):
                setup = shape.format(v=lit(content), r=lit(rhs))
                exp_read = content if "," not in read else (content, content)
                prog = STEP_SEP.join([setup, f"c {op}= *z", read, f"c {op}= *z", read, "c += 1", read])
                nxt = int_op("+", content, 1)
                exp_after = nxt if "," not in read else (nxt, nxt)
                out.append(Case(f"cells/err/{k}", prog,
                                Steps([None, Err(kind), exp_read, Err(kind), exp_read, nxt, exp_after]), {}, "steps",
                                f"failing {op}= leaves the cell unchanged"))
                k += 1
    # the same inside ONE program: the error of the failing update ends a function; a surviving alias shows the content
    for op, (rhs, kind) in bad.items():
        prog = (f"c := mut 4; g := (m: mut int, y: int) -> int {{ m {op}= y; return 0 }}; "
                f"h := () -> int {{ return *c }}; {{ g(c, *(mut {lit(rhs)})) }}")
        out.append(Case(f"cells/err/{k}", prog, Err(kind), {}, "nostd", f"failing {op}= reports {kind}"))
        k += 1
    return out


# ------------------------------------------------------------------------------------------- random aliasing programs
class _Cells:
    """random program over a heap of int cells reached through bindings, arrays, tuples, structs, closures, arguments"""

    def __init__(self, rnd):
        self.r = rnd
        self.lines = []
        self.heap = []          # cell id -> content
        self.refs = []          # (source text, cell id)
        self.n = 0

    def fresh(self, p):
        self.n += 1
        return f"{p}{self.n}"

    def const(self):
        return self.r.choice([0, 1, 2, 3, 5, -1, -4, 7, 10, 63, 64, 100, 1 << 32, MAX, MIN, -2])

    def new_cell(self):
        name = self.fresh("c")
        v = self.const()
        self.heap.append(v)
        self.lines.append(f"{name} := mut {lit(v)}")
        self.refs.append((name, len(self.heap) - 1))

    def alias(self):
        kind = self.r.choice(["bind", "array", "tuple", "struct", "cellcell"])
        picks = [self.r.choice(self.refs) for _ in range(self.r.randint(1, 3))]
        if kind == "bind":
            n = self.fresh("a")
            self.lines.append(f"{n} := {picks[0][0]}")
            self.refs.append((n, picks[0][1]))
        elif kind == "array":
            n = self.fresh("arr")
            self.lines.append(f"{n} := [{', '.join(p[0] for p in picks)}]")
            for i, p in enumerate(picks):
                self.refs.append((f"{n}[{i}]", p[1]))
            self.refs.append((f"{n}[-1]", picks[-1][1]))
        elif kind == "tuple":
            n = self.fresh("t")
            self.lines.append(f"{n} := ({', '.join(p[0] for p in picks)}, 0)")
            for i, p in enumerate(picks):
                self.refs.append((f"{n}.{i}", p[1]))
        elif kind == "struct":
            n = self.fresh("s")
            self.lines.append(f"{n} := struct{{{', '.join(f'f{i} := {p[0]}' for i, p in enumerate(picks))}}}")
            for i, p in enumerate(picks):
                self.refs.append((f"{n}.f{i}", p[1]))
        else:
            n = self.fresh("p")
            self.lines.append(f"{n} := mut {picks[0][0]}")
            self.refs.append((f"(*{n})", picks[0][1]))

    def expr(self, d):
        """-> (text, thunk evaluating it against the heap; may raise _Fail)"""
        k = self.r.random()
        if d <= 0 or k < 0.3:
            if self.r.random() < 0.5:
                v = self.const()
                return lit(v), (lambda v=v: v)
            t, cid = self.r.choice(self.refs)
            return f"(*{t})", (lambda cid=cid: self.heap[cid])
        if k < 0.45:
            # an assignment used as a value
            t, cid = self.r.choice(self.refs)
            et, ef = self.expr(d - 1)

            def f(cid=cid, ef=ef):
                v = ef()
                self.heap[cid] = v
                return v
            return f"({t} = {et})", f
        op = self.r.choice(OPS_TOTAL + (OPS_FALLIBLE if self.r.random() < 0.35 else []))
        at, af = self.expr(d - 1)
        bt, bf = self.expr(d - 1)

        def f(op=op, af=af, bf=bf):
            a = af()
            b = bf()
            if op == "**" and b > 200:
                raise _Skip()
            r = int_op(op, a, b)
            if isinstance(r, Err):
                raise _Fail(r.msg)
            return r
        return f"({at} {op} {bt})", f

    def update(self):
        t, cid = self.r.choice(self.refs)
        et, ef = self.expr(2)
        res = self.fresh("r")
        how = self.r.random()
        if how < 0.3:
            self.lines.append(f"{res} := ({t} = {et})")

            def f(cid=cid, ef=ef):
                v = ef()
                self.heap[cid] = v
                return v
            return res, f
        op = self.r.choice(OPS_TOTAL * 3 + OPS_FALLIBLE)
        if how < 0.75:
            self.lines.append(f"{res} := ({t} {op}= {et})")
        elif how < 0.9:
            w = self.fresh("w")
            self.lines.append(f"{w} := (v: int) -> int {{ return ({t} {op}= v) }}")
            self.lines.append(f"{res} := {w}({et})")
        else:
            g = self.fresh("g")
            self.lines.append(f"{g} := (m: mut int, v: int) -> int {{ return (m {op}= v) }}")
            self.lines.append(f"{res} := {g}({t}, {et})")

        def f(cid=cid, ef=ef, op=op):
            v = ef()
            if op == "**" and v > 200:
                raise _Skip()
            r = int_op(op, self.heap[cid], v)      # content read AFTER the right operand was evaluated
            if isinstance(r, Err):
                raise _Fail(r.msg)                 # ... and the cell keeps its content
            self.heap[cid] = r
            return r
        return res, f


class _Fail(Exception):
    def __init__(self, kind):
        self.kind = kind


class _Skip(Exception):
    pass


def random_cases(tier, seed):
    rnd = random.Random(9000 + seed)
    out = []
    n = 400 if tier == "quick" else 4000
    k = 0
    while len(out) < n:
        k += 1
        g = _Cells(rnd)
        for _ in range(rnd.randint(1, 3)):
            g.new_cell()
        results = []
        steps = []
        for _ in range(rnd.randint(2, 7)):
            x = rnd.random()
            if x < 0.15:
                g.new_cell()
            elif x < 0.45:
                g.alias()
            else:
                steps.append((len(g.lines),) + g.update())
        # evaluate in program order: cell creations / aliases have no effect on existing contents
        try:
            vals = []
            for _pos, res, f in steps:
                vals.append(f())
                results.append(res)
            exp = tuple(vals) + tuple(g.heap) + (0,)
            exp = (exp, 0)
        except _Fail as e:
            # a constant sub-expression that always fails may be reported at parse time instead (C04)
            exp = ErrOrEarly(e.kind)
        except _Skip:
            continue
        ncell = len(g.heap)
        cellnames = [t for t, _cid in g.refs if t.startswith("c") and "[" not in t and "." not in t][:ncell]
        final = "((" + ", ".join([s[1] for s in steps] + [f"*{c}" for c in cellnames] + ["0"]) + "), 0)"
        prog = "main := () -> any { " + "; ".join(g.lines) + f"; return {final} }}; main()"
        out.append(Case(f"cells/rand/{k}", prog, exp, {}, "nostd", "random aliasing program vs reference heap"))
    return out


def fam_cells(tier, seed, extra=()):
    return fixed_cases() + error_steps()


def fam_cells_random(tier, seed, extra=()):
    return random_cases(tier, seed)
