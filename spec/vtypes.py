"""Types copied verbatim from /repo into every Verus file (attributes stripped)."""
TYPES = [
    dict(name="ExecError", src="src/errors/exec_error.rs", path=[("enum", "ExecError")]),
    dict(name="BinOperator", src="src/bin_operator.rs", path=[("enum", "BinOperator")]),
    dict(name="UnaryOperator", src="src/unary_operator.rs", path=[("enum", "UnaryOperator")]),
]
