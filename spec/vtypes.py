"""Types copied verbatim from /repo into every Verus file (attributes stripped)."""
TYPES = [
    dict(name="ExecError", src="src/errors/exec_error.rs", path=[("enum", "ExecError")]),
    dict(name="BinOperator", src="src/bin_operator.rs", path=[("enum", "BinOperator")]),
    dict(name="UnaryOperator", src="src/unary_operator.rs", path=[("enum", "UnaryOperator")]),
]
INS = "src/instruction.rs"
CF = "src/instruction/control_flow/"
TYPES += [
    # the real `Type` enum (FunctionType / MultiType / StructType stay opaque in the prelude): bodies may construct and compare types
    dict(name="Type", src="src/variable/type.rs", path=[("enum", "Type")]),
]
TYPES += [
    dict(name="ExecStop", src=INS, path=[("enum", "ExecStop")]),
    dict(name="ExecResult", src=INS, semi=("type", "ExecResult")),
    dict(name="From<ExecError> for ExecStop", src=INS, path=[("impl", "From<ExecError> for ExecStop")],
         post="""impl vstd::std_specs::convert::FromSpecImpl<ExecError> for ExecStop {
    open spec fn obeys_from_spec() -> bool { true }
    open spec fn from_spec(v: ExecError) -> ExecStop { ExecStop::Error(v) }
}"""),
    dict(name="InstructionWithStr", src=INS, path=[("struct", "InstructionWithStr")],
         rewrites=[("Arc<str>", "Name")]),
    dict(name="Instruction", src=INS, path=[("enum", "Instruction")],
         rewrites=[("Arc<Array>", "Arc<ArrayIns>"), ("Arc<Mut>", "Arc<MutIns>"), ("Arc<Struct>", "Arc<StructIns>"),
                   ("Tuple(Tuple)", "Tuple(TupleIns)"), ("Arc<str>", "Name")]),
    dict(name="BinOperation", src="src/instruction/bin_op.rs", path=[("struct", "BinOperation")]),
    dict(name="UnaryOperation", src="src/instruction/unary_operation.rs", path=[("struct", "UnaryOperation")]),
    dict(name="IfElse", src=CF + "if_else.rs", path=[("struct", "IfElse")]),
    dict(name="SetIfElse", src=CF + "set_if_else.rs", path=[("struct", "SetIfElse")], rewrites=[("Arc<str>", "Name")]),
    dict(name="Loop", src="src/instruction/loop.rs", semi=("struct", "Loop")),
    dict(name="Set", src="src/instruction/set.rs", path=[("struct", "Set")], rewrites=[("Arc<str>", "Name")]),
    dict(name="ArrayRepeat", src="src/instruction/array_repeat.rs", path=[("struct", "ArrayRepeat")]),
]
TYPES += [
    dict(name="Block", src="src/instruction/block.rs", path=[("struct", "Block")]),
    dict(name="DestructTuple", src="src/instruction/destruct_tuple.rs", path=[("struct", "DestructTuple")],
         rewrites=[("Arc<[Arc<str>]>", "Arc<[Name]>")]),
    dict(name="Match", src=CF + "match.rs", path=[("struct", "Match")]),
    dict(name="MatchArm", src=CF + "match_arm.rs", path=[("enum", "MatchArm")], rewrites=[("Arc<str>", "Name")]),
    dict(name="Body", src="src/function/body.rs", path=[("enum", "Body")],
         rewrites=[("pub(crate) ", "pub "), ("fn(&mut Interpreter) -> Result<Variable, ExecError>", "NativeFn")]),
    dict(name="Function", src="src/function.rs", path=[("struct", "Function")], rewrites=[("Arc<str>", "Name"), ("pub(crate) ", "pub ")]),
]
TYPES += [
    dict(name="ArrayIns", src="src/instruction/array.rs", path=[("struct", "Array")],
         rewrites=[("pub struct Array", "pub struct ArrayIns")]),
]
TYPES += [
    dict(name="TupleIns", src="src/instruction/tuple.rs", path=[("struct", "Tuple")],
         rewrites=[("pub struct Tuple", "pub struct TupleIns")],
         post="pub type Tuple = TupleIns;   // the name instruction::tuple::Tuple has in /repo (bodies may use it in patterns / literals)"),
]
TYPES += [
    dict(name="LocalVariable", src="src/instruction/local_variable.rs", path=[("enum", "LocalVariable")]),
]

TYPES += [
    dict(name="TupleAccess", src="src/instruction/tuple_access.rs", path=[("struct", "TupleAccess")]),
    dict(name="FieldAccess", src="src/instruction/field_access.rs", path=[("struct", "FieldAccess")], rewrites=[("Arc<str>", "Name")]),
    dict(name="MutIns", src="src/instruction/mut.rs", path=[("struct", "Mut")], rewrites=[("pub struct Mut", "pub struct MutIns")]),
    dict(name="Slicing", src="src/instruction/slicing.rs", path=[("struct", "Slicing")]),
]
