"""V units for function creation (closures are re-folded when they are created): AnonymousFunction / FunctionDeclaration
exec + recreate.  Imported at the end of vunits.py."""
import sys
_v = sys.modules.get('vunits') or sys.modules['__main__']
unit, S0, S9, RS0, RS9 = _v.unit, _v.S0, _v.S9, _v.RS0, _v.RS9

ANON = "src/instruction/function/anonymous.rs"
DECL = "src/instruction/function/declaration.rs"
_T_ANON = dict(name="AnonymousFunction", src=ANON, path=[("struct", "AnonymousFunction")])
_T_DECL = dict(name="FunctionDeclaration", src=DECL, path=[("struct", "FunctionDeclaration")], rewrites=[("Arc<str>", "Name")])
_FRAGS = ["opspecs", "semantics", "seqlemmas", "functions"]
_COMMON = dict(omit=["opaque_function_kinds"], unit_types=[_T_ANON, _T_DECL], fragments=_FRAGS,
               broadcast=["sem_axioms::sem"])


def _ih(env, var="body", src="self.body"):
    """proof-only block placed after the recreate_instructions call: the list lemma (proved in seqlemmas.rs) turns the
    induction hypothesis for every statement into `the folded body behaves like the original body in every state`"""
    return ("proof {\n"
            f"            let is = rseq_res({src}@, {env}, 0, Seq::empty())->Ok_0;\n"
            f"            assert forall|s: int| seq_res({var}@, s, 0, Seq::empty()) == #[trigger] seq_res({src}@, s, 0, Seq::empty()) by {{\n"
            f"                lemma_recreated_list_behaves_alike({src}@, {env}, {var}@, is, s); }}\n"
            f"            assert forall|s: int| seq_st({var}@, s, 0) == #[trigger] seq_st({src}@, s, 0) by {{\n"
            f"                lemma_recreated_list_behaves_alike({src}@, {env}, {var}@, is, s); }}\n"
            "        }\n        ")


def _same_behaviour(b):
    return (f"(forall|s: int| seq_res({b}@, s, 0, Seq::empty()) == #[trigger] seq_res(self.body@, s, 0, Seq::empty())) "
            f"&& (forall|s: int| seq_st({b}@, s, 0) == #[trigger] seq_st(self.body@, s, 0))")


# ---------------------------------------------------------------- (params) -> T { body } : exec ------------------
E_A = f"lv_from_params(self.params, {S0})"
RB_A = f"rseq_res(self.body@, {E_A}, 0, Seq::empty())"
_FUN_A = ("(exists|f: Function| r->Ok_0 == Variable::Function(#[trigger] fun_wrap(f)) && f.ident is None && f.params == self.params "
          "&& f.return_type == self.return_type && f.body is Lang && {body})")
unit(id="anonfn.exec", src=ANON, path=[("impl", "Exec for AnonymousFunction"), ("fn", "exec")], impl="AnonymousFunction",
     injections=[("let body = recreate_instructions(&self.body, &mut fn_local_variables)?;\n",
                  "let body = recreate_instructions(&self.body, &mut fn_local_variables)?;\n        " + _ih(E_A))],
     ensures=[
         ("anonfn.exec.creating_a_closure_has_no_effect_on_the_interpreter", ["C04", "C07"], f"{S9} == {S0}"),
         ("anonfn.exec.folding_error_is_raised", ["C04"], f"{RB_A} is Err ==> r is Err"),
         ("anonfn.exec.body_is_folded_over_the_parameters_and_the_current_interpreter", ["C04"],
          f"{RB_A} is Ok ==> r is Ok && r->Ok_0 is Function && "
          + _FUN_A.format(body=f"body_is(f.body->Lang_0, {RB_A}->Ok_0, self.body@)")),
         ("anonfn.exec.unobservable", ["C04"],
          f"r is Ok ==> r->Ok_0 is Function && " + _FUN_A.format(body=_same_behaviour("f.body->Lang_0"))),
     ], **_COMMON)

# ---------------------------------------------------------------- (params) -> T { body } : recreate --------------
E_AR_IN = "lv_function_layer(ls0, lvm_of_params(self.params), FunctionInfo { name: None, return_type: self.return_type })"
_GHOST_A = ("let mut local_variables = local_variables.function_layer(", "let ghost ls0 = local_variables.st@;\n        let mut local_variables = local_variables.function_layer(")
E_AR = f"lv_function_layer({RS0}, lvm_of_params(self.params), FunctionInfo {{ name: None, return_type: self.return_type }})"
RB_AR = f"rseq_res(self.body@, {E_AR}, 0, Seq::empty())"
unit(id="anonfn.recreate", src=ANON, path=[("impl", "Recreate for AnonymousFunction"), ("fn", "recreate")], impl="AnonymousFunction",
     injections=[_GHOST_A, ("let body = recreate_instructions(&self.body, &mut local_variables)?;\n",
                  "let body = recreate_instructions(&self.body, &mut local_variables)?;\n        " + _ih(E_AR_IN))],
     ensures=[
         ("anonfn.recreate.bindings_of_the_body_do_not_leak", ["C04"], f"{RS9} == {RS0}"),
         ("anonfn.recreate.body_folded_in_a_function_layer_over_the_parameters", ["C04"],
          f"(match {RB_AR} {{ Err(e) => r == Err::<Instruction, ExecError>(e), "
          f"Ok(is) => r is Ok && r->Ok_0 is AnonymousFunction && r->Ok_0->AnonymousFunction_0.params == self.params "
          f"&& r->Ok_0->AnonymousFunction_0.return_type == self.return_type "
          f"&& body_is(r->Ok_0->AnonymousFunction_0.body, is, self.body@) }})"),
         ("anonfn.recreate.unobservable", ["C04"],
          f"r is Ok ==> r->Ok_0 is AnonymousFunction && " + _same_behaviour("r->Ok_0->AnonymousFunction_0.body")),
     ], **_COMMON)

# ---------------------------------------------------------------- name := (params) -> T { body } : exec ----------
E_D = (f"lv_insert(lv_from_params(self.params, {S0}), self.ident, "
       f"LocalVariable::Function(self.params, self.return_type))")
RB_D = f"rseq_res(self.body@, {E_D}, 0, Seq::empty())"
_FUN_D = ("(exists|f: Function| r->Ok_0 == Variable::Function(#[trigger] fun_wrap(f)) && f.ident == Some(self.ident) && f.params == self.params "
          "&& f.return_type == self.return_type && f.body is Lang && {body} && {st})")
unit(id="fndecl.exec", src=DECL, path=[("impl", "Exec for FunctionDeclaration"), ("fn", "exec")], impl="FunctionDeclaration",
     injections=[("let body = recreate_instructions(&self.body, &mut local_variables)?;\n",
                  "let body = recreate_instructions(&self.body, &mut local_variables)?;\n        " + _ih(E_D))],
     ensures=[
         ("fndecl.exec.folding_error_is_raised_and_binds_nothing", ["C04"], f"{RB_D} is Err ==> r is Err && {S9} == {S0}"),
         ("fndecl.exec.body_is_folded_knowing_its_own_name_and_bound_under_that_name", ["C04", "C12"],
          f"{RB_D} is Ok ==> r is Ok && r->Ok_0 is Function && "
          + _FUN_D.format(body=f"body_is(f.body->Lang_0, {RB_D}->Ok_0, self.body@)",
                          st=f"{S9} == st_insert({S0}, self.ident, Variable::Function(fun_wrap(f)))")),
         ("fndecl.exec.unobservable", ["C04"],
          f"r is Ok ==> r->Ok_0 is Function && " + _FUN_D.format(body=_same_behaviour("f.body->Lang_0"), st="true")),
     ], **_COMMON)

# ---------------------------------------------------------------- name := (params) -> T { body } : recreate ------
E_DR_IN = ("lv_function_layer(lv_insert(ls0, self.ident, LocalVariable::Function(self.params, self.return_type)), lvm_of_params(self.params), "
           "FunctionInfo { name: Some(self.ident), return_type: self.return_type })")
_GHOST_D = ("local_variables.insert(\n", "let ghost ls0 = local_variables.st@;\n        local_variables.insert(\n")
E_DR0 = f"lv_insert({RS0}, self.ident, LocalVariable::Function(self.params, self.return_type))"
E_DR = f"lv_function_layer({E_DR0}, lvm_of_params(self.params), FunctionInfo {{ name: Some(self.ident), return_type: self.return_type }})"
RB_DR = f"rseq_res(self.body@, {E_DR}, 0, Seq::empty())"
unit(id="fndecl.recreate", src=DECL, path=[("impl", "Recreate for FunctionDeclaration"), ("fn", "recreate")], impl="FunctionDeclaration",
     injections=[_GHOST_D, ("let body = recreate_instructions(&self.body, &mut local_variables)?;\n",
                  "let body = recreate_instructions(&self.body, &mut local_variables)?;\n        " + _ih(E_DR_IN))],
     ensures=[
         ("fndecl.recreate.only_the_function_name_is_bound_outside", ["C04"], f"{RS9} == {E_DR0}"),
         ("fndecl.recreate.body_folded_in_a_function_layer_that_knows_the_name", ["C04"],
          f"(match {RB_DR} {{ Err(e) => r == Err::<Instruction, ExecError>(e), "
          f"Ok(is) => r is Ok && r->Ok_0 is FunctionDeclaration && r->Ok_0->FunctionDeclaration_0.ident == self.ident "
          f"&& r->Ok_0->FunctionDeclaration_0.params == self.params && r->Ok_0->FunctionDeclaration_0.return_type == self.return_type "
          f"&& body_is(r->Ok_0->FunctionDeclaration_0.body, is, self.body@) }})"),
         ("fndecl.recreate.unobservable", ["C04"],
          f"r is Ok ==> r->Ok_0 is FunctionDeclaration && " + _same_behaviour("r->Ok_0->FunctionDeclaration_0.body")),
     ], **_COMMON)

# ---------------------------------------------------------------- C11: the Rust-level consumers of iterators ------
# A pull is `iter.exec_with_args(&[])`: no state parameter, so nothing is assumed about its result.  The sequence of pull
# results is recorded in a ghost history `pulled` (injected at the top of the loop body) and the obligations are loop
# invariants / assertions over it, carried by markers (ensures cannot mention a ghost local).
COLLECT = "src/instruction/reduce/collect.rs"
_PUSH_HIST = ("proof {{ assert(pulled.push(tuple).drop_last() =~= pulled); pulled = pulled.push(tuple); "
              "if continuing(tuple) {{ assert(kept_elems(pulled).drop_last() =~= kept_elems(pulled.drop_last())); }} }}\n")
unit(id="collect.exec", src=COLLECT, path=[("fn", "exec")], mod="collect", fragments=["iterators"],
     fn_attrs=["#[verifier::exec_allows_no_decreases_clause]"],
     requires=["var is Function", "typed_as_iterator(var->Function_0)"],
     injections=[
         ("let mut vec = Vec::new();\n",
          "let mut vec = Vec::new();\n    let ghost mut pulled: Seq<Tup> = Seq::empty();\n"),
         ("while let Variable::Tuple(tuple) = iter.exec_with_args(&[])? {\n",
          "while let Variable::Tuple(tuple) = iter.exec_with_args(&[])?\n"
          "        invariant_except_break\n"
          "            forall|i: int| 0 <= i < pulled.len() ==> continuing(#[trigger] pulled[i]), /*@obl:collect.exec.stops_at_the_first_pull_that_ends_the_sequence*/\n"
          "        invariant\n"
          "            iter == var->Function_0, typed_as_iterator(iter),\n"
          "            vec@ == kept_elems(pulled), /*@obl:collect.exec.yields_exactly_the_elements_of_the_continuing_pulls_in_pull_order*/\n"
          "        ensures\n"
          "            forall|i: int| 0 <= i < pulled.len() - 1 ==> continuing(#[trigger] pulled[i]),\n"
          "    {\n        " + _PUSH_HIST.format()),
         ("Ok(vec.into())",
          "assert(vec@ == kept_elems(pulled)) /*@obl:collect.exec.yields_exactly_the_elements_of_the_continuing_pulls_in_pull_order*/;\n"
          "    assert(forall|i: int| 0 <= i < pulled.len() - 1 ==> continuing(#[trigger] pulled[i])) /*@obl:collect.exec.stops_at_the_first_pull_that_ends_the_sequence*/;\n"
          "    Ok(vec.into())"),
     ],
     ensures=[
         ("collect.exec.yields_exactly_the_elements_of_the_continuing_pulls_in_pull_order", ["C11"], None),
         ("collect.exec.stops_at_the_first_pull_that_ends_the_sequence", ["C11"], None),
         ("collect.exec.result_is_an_array", ["C11"], "r is Ok ==> r->Ok_0 is Array"),
     ])

REDUCE = "src/instruction/reduce.rs"
_T_RED = dict(name="Reduce", src=REDUCE, path=[("struct", "Reduce")])
R1 = f"eval_res(self.iter.instruction, {S0})"
R1S = f"eval_st(self.iter.instruction, {S0})"
R2 = f"eval_res(self.initial_value.instruction, {R1S})"
R2S = f"eval_st(self.initial_value.instruction, {R1S})"
R3 = f"eval_res(self.function.instruction, {R2S})"
R3S = f"eval_st(self.function.instruction, {R2S})"
_ROK = f"{R1} is Ok && {R2} is Ok && {R3} is Ok"
unit(id="reduce.exec", src=REDUCE, path=[("impl", "Exec for Reduce"), ("fn", "exec")], impl="Reduce",
     stubs=["iws.exec"], fragments=["iterators"], omit=["opaque_reduce"], unit_types=[_T_RED],
     fn_attrs=["#[verifier::exec_allows_no_decreases_clause]"],
     requires=[f"{R1} is Ok ==> {R1}->Ok_0 is Function && typed_as_iterator({R1}->Ok_0->Function_0)",
               f"{_ROK} ==> {R3}->Ok_0 is Function"],
     injections=[
         ("let mut result = initial_value;\n",
          "let ghost init0 = initial_value;\n        let ghost mut pulled: Seq<Tup> = Seq::empty();\n"
          "        let mut result = initial_value;\n"),
         ("while let Variable::Tuple(tuple) = iter.exec_with_args(&[])? {\n",
          "while let Variable::Tuple(tuple) = iter.exec_with_args(&[])?\n"
          "            invariant_except_break\n"
          "                forall|i: int| 0 <= i < pulled.len() ==> continuing(#[trigger] pulled[i]), /*@obl:reduce.exec.stops_at_the_first_pull_that_ends_the_sequence*/\n"
          "            invariant\n"
          f"                {_ROK}, typed_as_iterator(*iter), {S9.replace('final(interpreter)', 'interpreter')} == {R3S},\n"
          "                fold_seq(*function, init0, kept_elems(pulled)) == Ok::<Variable, ExecError>(result), /*@obl:reduce.exec.is_the_left_fold_over_the_elements_of_the_continuing_pulls_in_pull_order*/\n"
          "            ensures\n"
          "                forall|i: int| 0 <= i < pulled.len() - 1 ==> continuing(#[trigger] pulled[i]),\n"
          "        {\n            " + _PUSH_HIST.format()),
         ("Ok(result)\n",
          "assert(fold_seq(*function, init0, kept_elems(pulled)) == Ok::<Variable, ExecError>(result)) "
          "/*@obl:reduce.exec.is_the_left_fold_over_the_elements_of_the_continuing_pulls_in_pull_order*/;\n"
          "        assert(forall|i: int| 0 <= i < pulled.len() - 1 ==> continuing(#[trigger] pulled[i])) /*@obl:reduce.exec.stops_at_the_first_pull_that_ends_the_sequence*/;\n"
          "        Ok(result)\n"),
     ],
     ensures=[
         ("reduce.exec.iterator_then_initial_value_then_function_errors_stop", ["C07", "C11"],
          f"({R1} is Err ==> r == {R1} && {S9} == {R1S}) && ({R1} is Ok && {R2} is Err ==> r == {R2} && {S9} == {R2S}) "
          f"&& ({R1} is Ok && {R2} is Ok && {R3} is Err ==> r == {R3} && {S9} == {R3S})"),
         ("reduce.exec.pulling_and_folding_leave_the_callers_scope_alone", ["C11"], f"{_ROK} ==> {S9} == {R3S}"),
         ("reduce.exec.is_the_left_fold_over_the_elements_of_the_continuing_pulls_in_pull_order", ["C11"], None),
         ("reduce.exec.stops_at_the_first_pull_that_ends_the_sequence", ["C11"], None),
     ])

# ---------------------------------------------------------------- [value; len] : recreate --------------------------
_OKI, _v_S = _v.OKI, None
ARV = f"rec_res(self.value.instruction, {RS0})"
ARVS = f"rec_st(self.value.instruction, {RS0})"
ARL = f"rec_res(self.len.instruction, {ARVS})"
ARLS = f"rec_st(self.len.instruction, {ARVS})"
_SAME_ELEMS = ("(forall|s: int| (#[trigger] eval_res(r->Ok_0, s) == arrayrepeat_res(*self, s)) "
               "|| (eval_res(r->Ok_0, s) is Ok && arrayrepeat_res(*self, s) is Ok && eval_res(r->Ok_0, s)->Ok_0 is Array "
               "&& eval_res(r->Ok_0, s)->Ok_0->Array_0.elems@ =~= arrayrepeat_res(*self, s)->Ok_0->Array_0.elems@))")
unit(id="arrayrepeat.recreate", src="src/instruction/array_repeat.rs", path=[("impl", "Recreate for ArrayRepeat"), ("fn", "recreate")],
     impl="ArrayRepeat", stubs=["iws.recreate", "arrayrepeat.create_from_instructions"], fragments=["opspecs", "semantics"],
     broadcast=["sem_axioms::sem", "sem_axioms4::sem4"],
     ensures=[
         ("arrayrepeat.recreate.value_then_length_folded_errors_stop", ["C04", "C07"],
          f"({ARV} is Err ==> r == Err::<Instruction, ExecError>({ARV}->Err_0) && {RS9} == {ARVS}) "
          f"&& ({ARV} is Ok && {ARL} is Err ==> r == Err::<Instruction, ExecError>({ARL}->Err_0)) "
          f"&& ({ARV} is Ok ==> {RS9} == {ARLS})"),
         ("arrayrepeat.recreate.unobservable", ["C04", "C07"],
          f"r is Ok ==> {_SAME_ELEMS} && (forall|s: int| #[trigger] eval_st(r->Ok_0, s) == arrayrepeat_st(*self, s))"),
         ("arrayrepeat.recreate.early_error_only_if_every_evaluation_fails", ["C04"],
          f"r is Err && {ARV} is Ok && {ARL} is Ok ==> (forall|s: int| #[trigger] arrayrepeat_res(*self, s) is Err)"),
     ])

# ---------------------------------------------------------------- it $ init f / it ? T : recreate ------------------
_FROM_RED = """
impl vstd::std_specs::convert::FromSpecImpl<Reduce> for Instruction {
    open spec fn obeys_from_spec() -> bool { true }
    open spec fn from_spec(v: Reduce) -> Instruction { Instruction::Reduce(Arc::new(v)) }
}
impl From<Reduce> for Instruction { fn from(v: Reduce) -> (r: Instruction) { Instruction::Reduce(Arc::new(v)) } }
"""
RR1 = f"rec_res(self.iter.instruction, {RS0})"
RR1S = f"rec_st(self.iter.instruction, {RS0})"
RR2 = f"rec_res(self.initial_value.instruction, {RR1S})"
RR2S = f"rec_st(self.initial_value.instruction, {RR1S})"
RR3 = f"rec_res(self.function.instruction, {RR2S})"
RR3S = f"rec_st(self.function.instruction, {RR2S})"
unit(id="reduce.recreate", src=REDUCE, path=[("impl", "Recreate for Reduce"), ("fn", "recreate")], impl="Reduce",
     stubs=["iws.recreate"], omit=["opaque_reduce"], unit_types=[_T_RED], extra=_FROM_RED,
     sig_rewrites=[("&mut crate::instruction::local_variable::LocalVariables", "&mut LocalVariables")],
     rewrites=[("local_variables: &mut crate::instruction::local_variable::LocalVariables", "local_variables: &mut LocalVariables")],
     ensures=[
         ("reduce.recreate.every_operand_is_folded_once_in_order_and_rebuilt_in_place", ["C04", "C07", "C11"],
          f"(match {RR1} {{ Err(e) => r == Err::<Instruction, ExecError>(e), Ok(a) => (match {RR2} {{ Err(e) => r == Err::<Instruction, ExecError>(e), "
          f"Ok(b) => (match {RR3} {{ Err(e) => r == Err::<Instruction, ExecError>(e), Ok(c) => r is Ok && r->Ok_0 is Reduce "
          f"&& r->Ok_0->Reduce_0.iter.instruction == a && r->Ok_0->Reduce_0.initial_value.instruction == b "
          f"&& r->Ok_0->Reduce_0.function.instruction == c && {RS9} == {RR3S} }}) }}) }})"),
     ])
_T_TF = dict(name="TypeFilter", src="src/instruction/type_filter.rs", path=[("struct", "TypeFilter")])
_FROM_TF = """
impl vstd::std_specs::convert::FromSpecImpl<TypeFilter> for Instruction {
    open spec fn obeys_from_spec() -> bool { true }
    open spec fn from_spec(v: TypeFilter) -> Instruction { Instruction::TypeFilter(Arc::new(v)) }
}
impl From<TypeFilter> for Instruction { fn from(v: TypeFilter) -> (r: Instruction) { Instruction::TypeFilter(Arc::new(v)) } }
"""
RTF = f"rec_res(self.iterator.instruction, {RS0})"
unit(id="typefilter.recreate", src="src/instruction/type_filter.rs", path=[("impl", "Recreate for TypeFilter"), ("fn", "recreate")],
     impl="TypeFilter", stubs=["iws.recreate"], omit=["opaque_typefilter"], unit_types=[_T_TF], extra=_FROM_TF,
     ensures=[
         ("typefilter.recreate.iterator_folded_type_kept_rebuilt_in_place", ["C04", "C11"],
          f"(match {RTF} {{ Err(e) => r == Err::<Instruction, ExecError>(e), Ok(a) => r is Ok && r->Ok_0 is TypeFilter "
          f"&& r->Ok_0->TypeFilter_0.iterator.instruction == a && r->Ok_0->TypeFilter_0.var_type == self.var_type }}) "
          f"&& {RS9} == rec_st(self.iterator.instruction, {RS0})"),
     ])

# ---------------------------------------------------------------- it \ p : partition::exec -------------------------
PART = "src/instruction/bin_op/partition.rs"
_T_ARRV = dict(name="Array (value)", src="src/variable/array.rs", path=[("struct", "Array")],
               rewrites=[("Arc<[Variable]>", "Tup"), ("pub(crate) ", "pub ")],
               post="""impl vstd::std_specs::convert::FromSpecImpl<Array> for Variable {
    open spec fn obeys_from_spec() -> bool { true }
    open spec fn from_spec(v: Array) -> Variable { Variable::Array(Arr { elems: v.elements.elems }) }
}
impl From<Array> for Variable { #[verifier::external_body] fn from(v: Array) -> (r: Variable) { unimplemented!() } }""")
_PI, _PF = "iter->Function_0", "function->Function_0"
unit(id="partition.exec", src=PART, path=[("fn", "exec")], mod="partition", fragments=["iterators"],
     omit=["opaque_array_value"], unit_types=[_T_ARRV],
     fn_attrs=["#[verifier::exec_allows_no_decreases_clause]"],
     # the macro's own expansion for a tuple of identifiers (macros/src/var.rs, Rule::tuple_ident)
     rewrites=[(r"re:var!\(\(([a-z_0-9]+), ([a-z_0-9]+)\)\)", r"Variable::Tuple([Variable::from(\1), Variable::from(\2)].into())")],
     requires=["iter is Function", "function is Function", f"typed_as_iterator({_PI})",
               f"spec_iter_element(spec_fun_type({_PI})) is Some"],
     injections=[
         ("let mut right = Vec::new();\n",
          "let mut right = Vec::new();\n    let ghost mut pulled: Seq<Tup> = Seq::empty();\n    let ghost (it0, fn0) = (*iter, *function);\n"),
         ("while let Variable::Tuple(tuple) = iter.exec_with_args(&[])? {\n",
          "while let Variable::Tuple(tuple) = iter.exec_with_args(&[])?\n"
          "        invariant_except_break\n"
          "            forall|i: int| 0 <= i < pulled.len() ==> continuing(#[trigger] pulled[i]), /*@obl:partition.exec.stops_at_the_first_pull_that_ends_the_sequence*/\n"
          "        invariant\n"
          "            *iter == it0, *function == fn0, typed_as_iterator(*iter),\n"
          "            left@ == part_yes(*function, kept_elems(pulled)), /*@obl:partition.exec.first_array_holds_the_accepted_elements_in_pull_order*/\n"
          "            right@ == part_no(*function, kept_elems(pulled)), /*@obl:partition.exec.second_array_holds_the_other_elements_in_pull_order*/\n"
          "            all_ok(*function, kept_elems(pulled)), /*@obl:partition.exec.an_error_of_the_predicate_ends_the_loop*/\n"
          "            forall|i: int| 0 <= i < left@.len() ==> accepted(*function, #[trigger] left@[i]),\n"
          "            forall|i: int| 0 <= i < right@.len() ==> !accepted(*function, #[trigger] right@[i]),\n"
          "        ensures\n"
          "            forall|i: int| 0 <= i < pulled.len() - 1 ==> continuing(#[trigger] pulled[i]),\n"
          "    {\n        " + _PUSH_HIST.format()),
     ],
     ensures=[
         ("partition.exec.first_array_holds_the_accepted_elements_in_pull_order", ["C11"], None),
         ("partition.exec.second_array_holds_the_other_elements_in_pull_order", ["C11"], None),
         ("partition.exec.stops_at_the_first_pull_that_ends_the_sequence", ["C11"], None),
         ("partition.exec.an_error_of_the_predicate_ends_the_loop", ["C11"], None),
         ("partition.exec.yields_the_pair_accepted_then_others", ["C11"],
          f"r is Ok ==> r->Ok_0 is Tuple && r->Ok_0->Tuple_0.elems@.len() == 2 && r->Ok_0->Tuple_0.elems@[0] is Array && r->Ok_0->Tuple_0.elems@[1] is Array "
          f"&& (forall|i: int| 0 <= i < r->Ok_0->Tuple_0.elems@[0]->Array_0.elems@.len() ==> accepted({_PF}, #[trigger] r->Ok_0->Tuple_0.elems@[0]->Array_0.elems@[i])) "
          f"&& (forall|i: int| 0 <= i < r->Ok_0->Tuple_0.elems@[1]->Array_0.elems@.len() ==> !accepted({_PF}, #[trigger] r->Ok_0->Tuple_0.elems@[1]->Array_0.elems@[i]))"),
     ])
