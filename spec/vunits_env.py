"""V units for the two environment data structures (C06): Interpreter (run time) and LocalVariables (checker / folding pass)
- layered hash maps.  They use their own prelude (verus/envprelude.rs): the main prelude models these structures abstractly.
Imported at the end of vunits.py."""
import sys
_v = sys.modules.get('vunits') or sys.modules['__main__']
unit = _v.unit

INTERP = "src/interpreter.rs"
LV = "src/instruction/local_variable.rs"
_T_INT = dict(name="Interpreter", src=INTERP, path=[("struct", "Interpreter")])
_T_LVS = dict(name="LocalVariables", src=LV, path=[("struct", "LocalVariables")])
_T_FI = dict(name="FunctionInfo", src=LV, path=[("struct", "FunctionInfo")])
_T_LVAR = dict(name="LocalVariable", src=LV, path=[("enum", "LocalVariable")],
               post="""pub uninterp spec fn lvm_from(p: Params) -> LocalVariableMap;
impl vstd::std_specs::convert::FromSpecImpl<Params> for LocalVariableMap {
    open spec fn obeys_from_spec() -> bool { true }
    open spec fn from_spec(v: Params) -> LocalVariableMap { lvm_from(v) }
}
impl From<Params> for LocalVariableMap { #[verifier::external_body] fn from(v: Params) -> (r: LocalVariableMap) { unimplemented!() } }""")
_ENV = dict(prelude="envprelude", unit_types=[_T_INT, _T_LVAR, _T_FI, _T_LVS], broadcast=["env_axioms"])
_NODEC = ["#[verifier::exec_allows_no_decreases_clause]"]

# ---------------------------------------------------------------- Interpreter -------------------------------------
unit(id="interpreter.get_variable", src=INTERP, path=[("impl", "Interpreter<'a>"), ("fn", "get_variable")], impl="<'a> Interpreter<'a>",
     fn_attrs=_NODEC, ret="r",
     ensures=[
         ("interpreter.get_variable.the_innermost_layer_that_binds_the_name_wins", ["C06"],
          "layer_has(self.variables@, name) ==> r is Some && layer_binds(self.variables@, name, *r->Some_0)"),
     ], **_ENV)
unit(id="interpreter.insert", src=INTERP, path=[("impl", "Interpreter<'a>"), ("fn", "insert")], impl="<'a> Interpreter<'a>",
     ensures=[
         ("interpreter.insert.binds_in_the_innermost_layer_only", ["C06"],
          "final(self).variables@ == old(self).variables@.insert(name, variable) && final(self).lower_layer == old(self).lower_layer"),
     ], **_ENV)
unit(id="interpreter.create_layer", src=INTERP, path=[("impl", "Interpreter<'a>"), ("fn", "create_layer")], impl="<'a> Interpreter<'a>",
     ensures=[
         ("interpreter.create_layer.is_an_empty_layer_over_this_one", ["C06"],
          "r.variables@ == Map::<Arc<str>, Variable>::empty() && r.lower_layer == Some(self)"),
     ], **_ENV)
unit(id="interpreter.without_stdlib", src=INTERP, path=[("impl", "Interpreter<'a>"), ("fn", "without_stdlib")], impl="<'a> Interpreter<'a>",
     ensures=[
         ("interpreter.without_stdlib.knows_no_name", ["C06"],
          "r.variables@ == Map::<Arc<str>, Variable>::empty() && r.lower_layer is None"),
     ], **_ENV)
unit(id="interpreter.drop_layer", src=INTERP, path=[("impl", "Interpreter<'a>"), ("fn", "drop_layer")], impl="<'a> Interpreter<'a>",
     ensures=[("interpreter.drop_layer.yields_the_bindings_of_this_layer_only", ["C06"], "r == self.variables")], **_ENV)

# ---------------------------------------------------------------- LocalVariables ----------------------------------
_LI = "<'a> LocalVariables<'a>"
unit(id="localvariables.get", src=LV, path=[("impl", "LocalVariables<'a>"), ("fn", "get")], impl=_LI, fn_attrs=_NODEC,
     ensures=[
         ("localvariables.get.the_innermost_layer_that_binds_the_name_wins", ["C06"],
          "layer_has(self.variables@, name) ==> r is Some && layer_binds(self.variables@, name, *r->Some_0)"),
     ], **_ENV)
unit(id="localvariables.insert", src=LV, path=[("impl", "LocalVariables<'a>"), ("fn", "insert")], impl=_LI,
     ensures=[
         ("localvariables.insert.binds_in_the_innermost_layer_only", ["C06"],
          "final(self).variables@ == old(self).variables@.insert(name, variable) && final(self).lower_layer == old(self).lower_layer "
          "&& final(self).function == old(self).function && final(self).in_loop == old(self).in_loop && final(self).interpreter == old(self).interpreter"),
     ], **_ENV)
unit(id="localvariables.create_layer", src=LV, path=[("impl", "LocalVariables<'a>"), ("fn", "create_layer")], impl=_LI,
     ensures=[
         ("localvariables.create_layer.is_an_empty_layer_over_this_one_same_interpreter_same_loop", ["C06", "C12"],
          "r.variables@ == Map::<Arc<str>, LocalVariable>::empty() && r.lower_layer == Some(self) && r.function is None "
          "&& r.interpreter == self.interpreter && r.in_loop == self.in_loop"),
     ], **_ENV)
unit(id="localvariables.function_layer", src=LV, path=[("impl", "LocalVariables<'a>"), ("fn", "function_layer")], impl=_LI,
     ensures=[
         ("localvariables.function_layer.holds_the_parameters_over_this_layer_and_is_outside_every_loop", ["C06", "C12"],
          "r.variables == layer && r.lower_layer == Some(self) && r.function == Some(function) "
          "&& r.interpreter == self.interpreter && !r.in_loop"),
     ], **_ENV)
unit(id="localvariables.new", src=LV, path=[("impl", "LocalVariables<'a>"), ("fn", "new")], impl=_LI,
     ensures=[
         ("localvariables.new.knows_no_name_of_its_own", ["C06"],
          "r.variables@ == Map::<Arc<str>, LocalVariable>::empty() && r.lower_layer is None && r.function is None && !r.in_loop && r.interpreter == interpreter"),
     ], **_ENV)
unit(id="localvariables.from_params", src=LV, path=[("impl", "LocalVariables<'a>"), ("fn", "from_params")], impl=_LI,
     ensures=[
         ("localvariables.from_params.knows_the_parameters_and_nothing_of_the_defining_scope", ["C06"],
          "r.variables == lvm_from(params) && r.lower_layer is None && r.function is None && !r.in_loop && r.interpreter == interpreter"),
     ], **_ENV)

unit(id="localvariables.drop_layer", src=LV, path=[("impl", "LocalVariables<'a>"), ("fn", "drop_layer")], impl=_LI,
     ensures=[("localvariables.drop_layer.yields_the_bindings_of_this_layer_only", ["C06"], "r == self.variables")], **_ENV)
unit(id="localvariables.contains_key", src=LV, path=[("impl", "LocalVariables<'a>"), ("fn", "contains_key")], impl=_LI, fn_attrs=_NODEC,
     ensures=[
         ("localvariables.contains_key.a_name_bound_in_the_innermost_layer_is_known", ["C06"],
          "self.variables@.contains_key(*name) ==> r"),
     ], **_ENV)

# ---------------------------------------------------------------- obligations proved elsewhere that ARE scoping statements
# (who opens a layer, what is bound where, what a closure is folded against): also tagged C06
_C06 = {
    "block.exec.runs_in_new_layer", "setifelse.exec.match_runs_body_with_binding", "setifelse.exec.no_match_runs_else_only",
    "matcharm.exec.runs_arm_body", "set.exec.binds_after_evaluating_once",
    "block.recreate.bindings_do_not_leak_out_of_the_block", "block.recreate.statements_recreated_in_a_new_layer",
    "set.recreate.binds_the_recreated_value", "setifelse.recreate.keeps_both_branches_and_scopes_the_binding",
    "matcharm.recreate.type_arm_keeps_type_and_scopes_the_binding",
    "anonfn.exec.creating_a_closure_has_no_effect_on_the_interpreter",
    "anonfn.exec.body_is_folded_over_the_parameters_and_the_current_interpreter",
    "anonfn.recreate.bindings_of_the_body_do_not_leak", "anonfn.recreate.body_folded_in_a_function_layer_over_the_parameters",
    "fndecl.exec.folding_error_is_raised_and_binds_nothing",
    "fndecl.exec.body_is_folded_knowing_its_own_name_and_bound_under_that_name",
    "fndecl.recreate.only_the_function_name_is_bound_outside", "fndecl.recreate.body_folded_in_a_function_layer_that_knows_the_name",
    "reduce.exec.pulling_and_folding_leave_the_callers_scope_alone",
}
_seen = set()
for _u in _v.UNITS:
    for _k, (_o, _ps, _c) in enumerate(_u.get("ensures", [])):
        if _o in _C06:
            _seen.add(_o)
            if "C06" not in _ps:
                _ps.append("C06")
    if any("C06" in _ps for _o, _ps, _c in _u.get("ensures", [])) and "C06" not in _u.get("safe_props", []):
        _u["safe_props"] = sorted(set(_u.get("safe_props", [])) | {"C06"})
assert _seen == _C06, sorted(_C06 - _seen)
