"""more V units (round e); imported at the end of vunits.py"""
import sys
_v = sys.modules.get('vunits') or sys.modules['__main__']
unit, S0, S9, OKV = _v.unit, _v.S0, _v.S9, _v.OKV

# ---------------------------------------------------------------- Slicing::exec -----------------
SL = f"eval_res(self.lhs.instruction, {S0})"
SL1 = f"eval_st(self.lhs.instruction, {S0})"
B1 = f"bound_res(self.start, {SL1})"
SB1 = f"bound_st(self.start, {SL1})"
B2 = f"bound_res(self.stop, {SB1})"
SB2 = f"bound_st(self.stop, {SB1})"
B3 = f"bound_res(self.step, {SB2})"
SB3 = f"bound_st(self.step, {SB2})"
_ALLOK = f"{SL} is Ok && {B1} is Ok && {B2} is Ok && {B3} is Ok"
_SEL = "slyce_select({seq}, " + f"{B1}->Ok_0, {B2}->Ok_0, {B3}->Ok_0)"
unit(id="slicing.exec", src="src/instruction/slicing.rs", path=[("impl", "Exec for Slicing"), ("fn", "exec")], impl="SlicingK",
     mod="slicing_exec", stubs=["iws.exec"], fragments=["slicing"],
     unit_types=[dict(name="Slicing (fields)", src="src/instruction/slicing.rs", path=[("struct", "Slicing")],
                      rewrites=[("pub struct Slicing", "pub struct SlicingK")])],
     requires=[f"{SL} is Ok ==> ({SL}->Ok_0 is String || {SL}->Ok_0 is Array)",
               f"{SL} is Ok ==> bound_is_int(self.start, {SL1})",
               f"{SL} is Ok && {B1} is Ok ==> bound_is_int(self.stop, {SB1})",
               f"{SL} is Ok && {B1} is Ok && {B2} is Ok ==> bound_is_int(self.step, {SB2})"],
     ensures=[
         ("slicing.exec.operand_first_error_stops", ["C07", "C09"], f"{SL} is Err ==> r == {SL} && {S9} == {SL1}"),
         ("slicing.exec.start_error_stops", ["C07"],
          f"{SL} is Ok && {B1} is Err ==> r == Err::<Variable, ExecStop>({B1}->Err_0) && {S9} == {SB1}"),
         ("slicing.exec.stop_error_stops", ["C07"],
          f"{SL} is Ok && {B1} is Ok && {B2} is Err ==> r == Err::<Variable, ExecStop>({B2}->Err_0) && {S9} == {SB2}"),
         ("slicing.exec.step_error_stops", ["C07"],
          f"{SL} is Ok && {B1} is Ok && {B2} is Ok && {B3} is Err ==> r == Err::<Variable, ExecStop>({B3}->Err_0) && {S9} == {SB3}"),
         ("slicing.exec.bounds_left_to_right_each_once", ["C07"], f"{_ALLOK} ==> {S9} == {SB3}"),
         ("slicing.exec.string_yields_selected_scalar_values_as_string", ["C09"],
          f"{_ALLOK} && {SL}->Ok_0 is String ==> r is Ok && r->Ok_0 is String "
          f"&& r->Ok_0->String_0.chars@ == " + _SEL.format(seq=f"{SL}->Ok_0->String_0.chars@")),
         ("slicing.exec.array_yields_selected_elements_as_array", ["C09"],
          f"{_ALLOK} && {SL}->Ok_0 is Array ==> r is Ok && r->Ok_0 is Array "
          f"&& r->Ok_0->Array_0.elems@ == " + _SEL.format(seq=f"{SL}->Ok_0->Array_0.elems@")),
     ])
# Slicing::to_bound is the function the assumed contract of exec_index names (to_bound_spec)
for _u in _v.UNITS:
    if _u["id"] == "slicing.to_bound":
        _u.setdefault("fragments", []).append("slicing")
        _u["ensures"].append(("slicing.to_bound.is_the_spec_function_used_by_slicing_exec", ["C09"], "r == to_bound_spec(index)"))
