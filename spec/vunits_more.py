"""more V units (round e); imported at the end of vunits.py"""
import sys
_v = sys.modules.get('vunits') or sys.modules['__main__']
unit, S0, S9, OKV = _v.unit, _v.S0, _v.S9, _v.OKV

# ---------------------------------------------------------------- Slicing::exec -----------------
SL = f"eval_res(self.lhs.instruction, {S0})"
SL1 = f"eval_st(self.lhs.instruction, {S0})"
B1 = f"bound_res(self.start, {SL1})"
SB1 = f"bound_st(self.start, {SL1})"
B2 = f"bound_res(self.stop, {SB1})"
SB2 = f"bound_st(self.stop, {SB1})"
B3 = f"bound_res(self.step, {SB2})"
SB3 = f"bound_st(self.step, {SB2})"
_ALLOK = f"{SL} is Ok && {B1} is Ok && {B2} is Ok && {B3} is Ok"
_SEL = "slyce_select({seq}, " + f"{B1}->Ok_0, {B2}->Ok_0, {B3}->Ok_0)"
unit(id="slicing.exec", src="src/instruction/slicing.rs", path=[("impl", "Exec for Slicing"), ("fn", "exec")], impl="Slicing",
     mod="slicing_exec", stubs=["iws.exec"], fragments=["slicing"],
     requires=[f"{SL} is Ok ==> ({SL}->Ok_0 is String || {SL}->Ok_0 is Array)",
               f"{SL} is Ok ==> bound_is_int(self.start, {SL1})",
               f"{SL} is Ok && {B1} is Ok ==> bound_is_int(self.stop, {SB1})",
               f"{SL} is Ok && {B1} is Ok && {B2} is Ok ==> bound_is_int(self.step, {SB2})"],
     ensures=[
         ("slicing.exec.operand_first_error_stops", ["C07", "C09"], f"{SL} is Err ==> r == {SL} && {S9} == {SL1}"),
         ("slicing.exec.start_error_stops", ["C07"],
          f"{SL} is Ok && {B1} is Err ==> r == Err::<Variable, ExecStop>({B1}->Err_0) && {S9} == {SB1}"),
         ("slicing.exec.stop_error_stops", ["C07"],
          f"{SL} is Ok && {B1} is Ok && {B2} is Err ==> r == Err::<Variable, ExecStop>({B2}->Err_0) && {S9} == {SB2}"),
         ("slicing.exec.step_error_stops", ["C07"],
          f"{SL} is Ok && {B1} is Ok && {B2} is Ok && {B3} is Err ==> r == Err::<Variable, ExecStop>({B3}->Err_0) && {S9} == {SB3}"),
         ("slicing.exec.bounds_left_to_right_each_once", ["C07"], f"{_ALLOK} ==> {S9} == {SB3}"),
         ("slicing.exec.string_yields_selected_scalar_values_as_string", ["C09"],
          f"{_ALLOK} && {SL}->Ok_0 is String ==> r is Ok && r->Ok_0 is String "
          f"&& r->Ok_0->String_0.chars@ == " + _SEL.format(seq=f"{SL}->Ok_0->String_0.chars@")),
         ("slicing.exec.array_yields_selected_elements_as_array", ["C09"],
          f"{_ALLOK} && {SL}->Ok_0 is Array ==> r is Ok && r->Ok_0 is Array "
          f"&& r->Ok_0->Array_0.elems@ == " + _SEL.format(seq=f"{SL}->Ok_0->Array_0.elems@")),
     ])
# Slicing::to_bound is the function the assumed contract of exec_index names (to_bound_spec)
for _u in _v.UNITS:
    if _u["id"] == "slicing.to_bound":
        _u.setdefault("fragments", []).append("slicing")
        _u["ensures"].append(("slicing.to_bound.is_the_spec_function_used_by_slicing_exec", ["C09"], "r == to_bound_spec(index)"))

# ---------------------------------------------------------------- t.N and s.f ---------------------
RS0, RS9, OKI = _v.RS0, _v.RS9, _v.OKI
TA = f"eval_res(self.tuple.instruction, {S0})"
unit(id="tupleaccess.exec", src="src/instruction/tuple_access.rs", path=[("impl", "Exec for TupleAccess"), ("fn", "exec")],
     impl="TupleAccess", stubs=["iws.exec"], fragments=["opspecs", "semantics"],
     requires=[f"{TA} is Ok ==> {TA}->Ok_0 is Tuple && self.index < {TA}->Ok_0->Tuple_0.elems@.len()"],
     ensures=[
         ("tupleaccess.exec.is_the_semantic_function_tupleaccess_res", ["C07", "C04"],
          f"r == tupleaccess_res(*self, {S0}) && {S9} == tupleaccess_st(*self, {S0})"),
     ])
RT = f"rec_res(self.tuple.instruction, {RS0})"
unit(id="tupleaccess.recreate", src="src/instruction/tuple_access.rs", path=[("impl", "Recreate for TupleAccess"), ("fn", "recreate")],
     impl="TupleAccess", stubs=["iws.recreate"], fragments=["opspecs", "semantics"], broadcast=["sem_axioms::sem", "sem_axioms2::sem2"],
     ensures=[
         ("tupleaccess.recreate.unobservable", ["C04", "C07"],
          f"r is Ok ==> (forall|s: int| #[trigger] eval_res(r->Ok_0, s) == tupleaccess_res(*self, s)) "
          f"&& (forall|s: int| #[trigger] eval_st(r->Ok_0, s) == tupleaccess_st(*self, s))"),
         ("tupleaccess.recreate.operand_error_stops", ["C04"], f"{RT} is Err ==> r == Err::<Instruction, ExecError>({RT}->Err_0)"),
         ("tupleaccess.recreate.rebuilt_in_place", ["C04"],
          f"{RT} is Ok ==> r is Ok && r->Ok_0 is TupleAccess && r->Ok_0->TupleAccess_0.index == self.index "
          f"&& r->Ok_0->TupleAccess_0.tuple.instruction == {RT}->Ok_0 && {RS9} == rec_st(self.tuple.instruction, {RS0})"),
     ])
FA = f"eval_res(self.var.instruction, {S0})"
unit(id="fieldaccess.exec", src="src/instruction/field_access.rs", path=[("impl", "Exec for FieldAccess"), ("fn", "exec")],
     impl="FieldAccess", stubs=["iws.exec"], fragments=["opspecs", "semantics"],
     requires=[f"{FA} is Ok ==> {FA}->Ok_0 is Struct && {FA}->Ok_0->Struct_0.map.fields@.dom().contains(name_chars(self.ident))"],
     ensures=[
         ("fieldaccess.exec.is_the_semantic_function_fieldaccess_res", ["C07", "C04"],
          f"r == fieldaccess_res(*self, {S0}) && {S9} == fieldaccess_st(*self, {S0})"),
     ])
RF = f"rec_res(self.var.instruction, {RS0})"
unit(id="fieldaccess.recreate", src="src/instruction/field_access.rs", path=[("impl", "Recreate for FieldAccess"), ("fn", "recreate")],
     impl="FieldAccess", stubs=["iws.recreate"], fragments=["opspecs", "semantics"], broadcast=["sem_axioms::sem", "sem_axioms2::sem2"],
     ensures=[
         ("fieldaccess.recreate.unobservable", ["C04", "C07"],
          f"r is Ok ==> (forall|s: int| #[trigger] eval_res(r->Ok_0, s) == fieldaccess_res(*self, s)) "
          f"&& (forall|s: int| #[trigger] eval_st(r->Ok_0, s) == fieldaccess_st(*self, s))"),
         ("fieldaccess.recreate.rebuilt_in_place", ["C04"],
          f"(match {RF} {{ Err(e) => r == Err::<Instruction, ExecError>(e), Ok(v) => r is Ok && r->Ok_0 is FieldAccess "
          f"&& r->Ok_0->FieldAccess_0.ident == self.ident && r->Ok_0->FieldAccess_0.var.instruction == v }}) "
          f"&& {RS9} == rec_st(self.var.instruction, {RS0})"),
     ])
# ---------------------------------------------------------------- mut e: recreate ----------------
RM = f"rec_res(self.instruction.instruction, {RS0})"
unit(id="mut.recreate", src="src/instruction/mut.rs", path=[("impl", "Recreate for Mut"), ("fn", "recreate")], impl="MutIns",
     stubs=["iws.recreate"], rewrites=[("Ok(Mut {", "Ok(MutIns {")],   # instruction::Mut is named MutIns here (variable::Mut also exists)
     ensures=[
         ("mut.recreate.stays_a_mut_of_the_recreated_initialiser", ["C04", "C13"],
          f"(match {RM} {{ Err(e) => r == Err::<Instruction, ExecError>(e), Ok(v) => r is Ok && r->Ok_0 is Mut "
          f"&& r->Ok_0->Mut_0.var_type == self.var_type && r->Ok_0->Mut_0.instruction.instruction == v }}) "
          f"&& {RS9} == rec_st(self.instruction.instruction, {RS0})"),
     ])
# ---------------------------------------------------------------- match arm: recreate ------------
_TY_ST = f"lv_insert(lv_layer({RS0}), self->Type_ident, LocalVariable::Other(self->Type_var_type))"
unit(id="matcharm.recreate", src=_v.MARM, path=[("impl", "MatchArm"), ("fn", "recreate")], impl="MatchArm",
     stubs=["iws.recreate"],
     ensures=[
         ("matcharm.recreate.catch_all_arm_keeps_its_kind", ["C04", "C12"],
          f"self is Other ==> (match rec_res(self->Other_0.instruction, {RS0}) {{ Err(e) => r == Err::<MatchArm, ExecError>(e), "
          f"Ok(b) => r is Ok && r->Ok_0 is Other && r->Ok_0->Other_0.instruction == b }}) && {RS9} == rec_st(self->Other_0.instruction, {RS0})"),
         ("matcharm.recreate.type_arm_keeps_type_and_scopes_the_binding", ["C04", "C12"],
          f"self is Type ==> (match rec_res(self->Type_instruction.instruction, {_TY_ST}) {{ Err(e) => r == Err::<MatchArm, ExecError>(e), "
          f"Ok(b) => r is Ok && r->Ok_0 is Type && r->Ok_0->Type_ident == self->Type_ident && r->Ok_0->Type_var_type == self->Type_var_type "
          f"&& r->Ok_0->Type_instruction.instruction == b }}) && {RS9} == {RS0}"),
         ("matcharm.recreate.value_arm_keeps_every_candidate_in_order", ["C04", "C12", "C19"],
          f"self is Value ==> (match rseq_res(self->Value_0@, {RS0}, 0, Seq::empty()) {{ Err(e) => r == Err::<MatchArm, ExecError>(e), "
          f"Ok(cs) => (match rec_res(self->Value_1.instruction, rseq_st(self->Value_0@, {RS0}, 0)) {{ Err(e) => r == Err::<MatchArm, ExecError>(e), "
          f"Ok(b) => r is Ok && r->Ok_0 is Value && r->Ok_0->Value_0@.len() == cs.len() "
          f"&& (forall|i: int| 0 <= i < cs.len() ==> r->Ok_0->Value_0@[i].instruction == cs[i]) && r->Ok_0->Value_1.instruction == b }}) }})"),
     ])

# ---------------------------------------------------------------- tuple / array literals: folding ------------
_LOOP_INV = ("for instruction in it: &*{seq}\n"
             "            invariant\n"
             "                it.seq().len() == {seq}@.len(),\n"
             "                forall|j: int| 0 <= j < it.seq().len() ==> *it.seq()[j] == {seq}@[j],\n"
             "                array@.len() == it.index@,\n"
             "                forall|j: int| 0 <= j < array@.len() ==> (#[trigger] {seq}@[j]).instruction == Instruction::Variable(array@[j]),\n"
             "        {{")
_CONSTS = ("proof {{\n"
           "            assert forall|s: int| #[trigger] seq_res({seq}@, s, 0, Seq::empty()) == Ok::<Seq<Variable>, ExecStop>(array@) by {{\n"
           "                lemma_seq_of_constants({seq}@, array@, s, 0, Seq::empty());\n"
           "                assert(Seq::<Variable>::empty() + array@.subrange(0, array@.len() as int) =~= array@); }}\n"
           "            assert forall|s: int| #[trigger] seq_st({seq}@, s, 0) == s by {{\n"
           "                lemma_seq_of_constants({seq}@, array@, s, 0, Seq::empty()); }}\n"
           "        }}\n        ")
_ALLC = "(forall|j: int| 0 <= j < {seq}@.len() ==> (#[trigger] {seq}@[j]).instruction is Variable)"
unit(id="tuple.create_from_elements", src="src/instruction/tuple.rs", path=[("impl", "Tuple"), ("fn", "create_from_elements")],
     impl="TupleIns", mod="tuple_fold", fragments=["opspecs", "semantics", "seqlemmas"],
     broadcast=["sem_axioms::sem", "sem_axioms3::sem3"],
     injections=[
         ("for instruction in &*elements {", _LOOP_INV.format(seq="elements")),
         ("Instruction::Variable(Variable::Tuple(array.into()))",
          _CONSTS.format(seq="elements") + "Instruction::Variable(Variable::Tuple(array.into()))"),
     ],
     ensures=[
         ("tuple.fold.unobservable", ["C04", "C07"],
          "(forall|s: int| #[trigger] eval_res(r, s) == tuple_res(TupleIns { elements }, s)) "
          "&& (forall|s: int| #[trigger] eval_st(r, s) == tuple_st(TupleIns { elements }, s))"),
         ("tuple.fold.constants_become_a_constant_tuple", ["C04"],
          _ALLC.format(seq="elements") + " ==> r is Variable && r->Variable_0 is Tuple "
          "&& r->Variable_0->Tuple_0.elems@.len() == elements@.len() "
          "&& (forall|j: int| 0 <= j < elements@.len() ==> elements@[j].instruction == Instruction::Variable(#[trigger] r->Variable_0->Tuple_0.elems@[j]))"),
         ("tuple.fold.otherwise_rebuilt_in_place", ["C04"],
          "!" + _ALLC.format(seq="elements") + " ==> r == Instruction::Tuple(TupleIns { elements })"),
     ])
_RSEQ = "rseq_res(self.{f}@, " + RS0 + ", 0, Seq::empty())"
_IH = ("let {v} = recreate_instructions(&self.{f}, local_variables)?;\n"
       "        proof {{\n"
       "            let is = rseq_res(self.{f}@, old(local_variables).st@, 0, Seq::empty())->Ok_0;\n"
       "            assert forall|s: int| seq_res({v}@, s, 0, Seq::empty()) == #[trigger] seq_res(self.{f}@, s, 0, Seq::empty()) by {{\n"
       "                lemma_recreated_list_behaves_alike(self.{f}@, old(local_variables).st@, {v}@, is, s); }}\n"
       "            assert forall|s: int| seq_st({v}@, s, 0) == #[trigger] seq_st(self.{f}@, s, 0) by {{\n"
       "                lemma_recreated_list_behaves_alike(self.{f}@, old(local_variables).st@, {v}@, is, s); }}\n"
       "        }}")
unit(id="tuple.recreate", src="src/instruction/tuple.rs", path=[("impl", "Recreate for Tuple"), ("fn", "recreate")],
     impl="TupleIns", stubs=["tuple.create_from_elements"], fragments=["opspecs", "semantics", "seqlemmas"],
     broadcast=["sem_axioms::sem", "sem_axioms3::sem3"],
     injections=[("let elements = recreate_instructions(&self.elements, local_variables)?;", _IH.format(v="elements", f="elements"))],
     ensures=[
         ("tuple.recreate.unobservable", ["C04", "C07"],
          "r is Ok ==> (forall|s: int| #[trigger] eval_res(r->Ok_0, s) == tuple_res(*self, s)) "
          "&& (forall|s: int| #[trigger] eval_st(r->Ok_0, s) == tuple_st(*self, s))"),
         ("tuple.recreate.element_error_stops", ["C04"],
          f"{_RSEQ.format(f='elements')} is Err ==> r == Err::<Instruction, ExecError>({_RSEQ.format(f='elements')}->Err_0)"),
         ("tuple.recreate.elements_recreated_left_to_right", ["C04"], f"{RS9} == rseq_st(self.elements@, {RS0}, 0)"),
     ])

_ARRC = _CONSTS.format(seq="instructions")
unit(id="array.recreate", src="src/instruction/array.rs", path=[("impl", "Recreate for Array"), ("fn", "recreate")],
     impl="ArrayIns", fragments=["opspecs", "semantics", "seqlemmas"], broadcast=["sem_axioms::sem", "sem_axioms3::sem3"],
     injections=[
         ("let instructions = recreate_instructions(&self.instructions, local_variables)?;", _IH.format(v="instructions", f="instructions")),
         ("for instruction in &*instructions {", _LOOP_INV.format(seq="instructions").replace("        {", 
          "                local_variables.st@ == rseq_st(self.instructions@, old(local_variables).st@, 0),\n"
          "                rseq_res(self.instructions@, old(local_variables).st@, 0, Seq::empty()) is Ok,\n"
          "                forall|s: int| seq_res(instructions@, s, 0, Seq::empty()) == #[trigger] seq_res(self.instructions@, s, 0, Seq::empty()),\n"
          "                forall|s: int| seq_st(instructions@, s, 0) == #[trigger] seq_st(self.instructions@, s, 0),\n"
          "        {")),
         ("Ok(Instruction::Variable(array.into()))", _ARRC + "Ok(Instruction::Variable(array.into()))"),
     ],
     ensures=[
         ("array.recreate.unobservable", ["C04", "C07"],
          "r is Ok ==> (forall|s: int| #[trigger] eval_res(r->Ok_0, s) == array_res(*self, s)) "
          "&& (forall|s: int| #[trigger] eval_st(r->Ok_0, s) == array_st(*self, s))"),
         ("array.recreate.element_error_stops", ["C04"],
          f"{_RSEQ.format(f='instructions')} is Err ==> r == Err::<Instruction, ExecError>({_RSEQ.format(f='instructions')}->Err_0)"),
         ("array.recreate.elements_recreated_left_to_right", ["C04"], f"{RS9} == rseq_st(self.instructions@, {RS0}, 0)"),
     ])

# ---------------------------------------------------------------- [value; len]: semantic layer --------
for _u in _v.UNITS:
    if _u["id"] == "arrayrepeat.exec":
        _u.setdefault("fragments", [])
        for _f in ("opspecs", "semantics"):
            if _f not in _u["fragments"]:
                _u["fragments"].append(_f)
        _u["ensures"].append(("arrayrepeat.exec.is_the_semantic_function_arrayrepeat_res", ["C04", "C07"],
                              f"r is Ok ==> r->Ok_0 is Array && arrayrepeat_res(*self, {S0}) is Ok "
                              f"&& r->Ok_0->Array_0.elems@ =~= arrayrepeat_res(*self, {S0})->Ok_0->Array_0.elems@"))
        _u["ensures"].append(("arrayrepeat.exec.errors_and_state_are_those_of_the_semantic_function", ["C04", "C07"],
                              f"(r is Err ==> r == arrayrepeat_res(*self, {S0})) && (arrayrepeat_res(*self, {S0}) is Err ==> r is Err) "
                              f"&& {S9} == arrayrepeat_st(*self, {S0})"))
    if _u["id"] == "arrayrepeat.create_from_instructions":
        for _f in ("opspecs", "semantics"):
            if _f not in _u.setdefault("fragments", []):
                _u["fragments"].append(_f)
        _u["broadcast"] = ["sem_axioms::sem", "sem_axioms4::sem4"]
        _AR = "ArrayRepeat { value, len }"
        _u["ensures"].append(("arrayrepeat.fold.unobservable", ["C04", "C07"],
                              f"r is Ok ==> (forall|s: int| (#[trigger] eval_res(r->Ok_0, s) == arrayrepeat_res({_AR}, s)) "
                              f"|| (eval_res(r->Ok_0, s) is Ok && arrayrepeat_res({_AR}, s) is Ok && eval_res(r->Ok_0, s)->Ok_0 is Array "
                              f"&& eval_res(r->Ok_0, s)->Ok_0->Array_0.elems@ =~= arrayrepeat_res({_AR}, s)->Ok_0->Array_0.elems@)) "
                              f"&& (forall|s: int| #[trigger] eval_st(r->Ok_0, s) == arrayrepeat_st({_AR}, s))"))
        _u["ensures"].append(("arrayrepeat.fold.early_error_only_if_every_evaluation_fails", ["C04"],
                              f"r is Err ==> (forall|s: int| #[trigger] arrayrepeat_res({_AR}, s) is Err)"))

# ---------------------------------------------------------------- (a, b) := e : recreate ----------------
_DT_EXTRA = """
// DestructTuple::insert_local_variables (zip over idents and elements / types: outside Verus) - assumed: the environment
// after binding the idents of `d` is a function of the environment before and of `d` itself
pub uninterp spec fn lv_destruct(s: int, d: DestructTuple) -> int;
impl DestructTuple {
    #[verifier::external_body]
    pub fn insert_local_variables(&self, local_variables: &mut LocalVariables)
        ensures final(local_variables).st@ == lv_destruct(old(local_variables).st@, *self)
    { unimplemented!() }
}
impl vstd::std_specs::convert::FromSpecImpl<DestructTuple> for Instruction {
    open spec fn obeys_from_spec() -> bool { true }
    open spec fn from_spec(v: DestructTuple) -> Instruction { Instruction::DestructTuple(Arc::new(v)) }
}
impl From<DestructTuple> for Instruction { fn from(v: DestructTuple) -> (r: Instruction) { Instruction::DestructTuple(Arc::new(v)) } }
"""
RD = f"rec_res(self.instruction.instruction, {RS0})"
RD_ST = f"rec_st(self.instruction.instruction, {RS0})"
unit(id="destructtuple.recreate", src="src/instruction/destruct_tuple.rs", path=[("impl", "Recreate for DestructTuple"), ("fn", "recreate")],
     impl="DestructTuple", stubs=["iws.recreate"], extra=_DT_EXTRA,
     ensures=[
         ("destructtuple.recreate.value_is_folded_before_the_names_are_rebound", ["C04"],
          f"(match {RD} {{ Err(e) => r == Err::<Instruction, ExecError>(e) && {RS9} == {RD_ST}, "
          f"Ok(v) => r is Ok && r->Ok_0 is DestructTuple && r->Ok_0->DestructTuple_0.idents == self.idents "
          f"&& r->Ok_0->DestructTuple_0.instruction.instruction == v "
          f"&& {RS9} == lv_destruct({RD_ST}, *r->Ok_0->DestructTuple_0) }})"),
     ])
