"""C13 (mutable cells) units; imported at the end of vunits.py"""
import sys
_v = sys.modules.get('vunits') or sys.modules['__main__']
unit, S0, S9, OKV, ASSIGN, PREFIX = _v.unit, _v.S0, _v.S9, _v.OKV, _v.ASSIGN, _v.PREFIX

# ---------------------------------------------------------------- mut e -------------------------
ME = f"eval_res(self.instruction.instruction, {S0})"
ME_ST = f"eval_st(self.instruction.instruction, {S0})"
unit(id="mut.exec", src="src/instruction/mut.rs", path=[("impl", "Exec for Mut"), ("fn", "exec")], impl="MutIns",
     mod="mut_exec", stubs=["iws.exec"], fragments=["cells"], broadcast=["axiom_new_lock_holds_its_value"],
     ensures=[
         ("mut.exec.initialiser_error_stops", ["C13"], f"{ME} is Err ==> r == {ME} && {S9} == {ME_ST}"),
         ("mut.exec.new_cell_holds_the_initialiser_value", ["C13"],
          f"{ME} is Ok ==> r is Ok && r->Ok_0 is Mut && cell_content(r->Ok_0) == {ME}->Ok_0 && {S9} == {ME_ST}"),
     ])
unit(id="indirection.exec", src=PREFIX, path=[("mod", "indirection"), ("fn", "exec")], mod="indirection",
     fragments=["cells"], requires=["var is Mut"],
     ensures=[("indirection.exec.yields_current_content", ["C13"], "r == cell_content(var)")])

# ---------------------------------------------------------------- c = v / c op= v: what is STORED ----------
# assign::exec / assign::try_exec once more, now for what they leave in the cell.  The write guard is a local of the
# function, so "the cell holds X when the guard is released" cannot be a postcondition; it is carried by proof-only
# assertions injected (by literal anchor, no executable token touched) at the two points that bracket the update:
# just before the operator is called (nothing stored yet: the content is still the content at lock time) and at the
# tail expression (the stored value is the operator's result - the value the function then yields, `lhs.clone()`).
_G0 = "let ghost lhs0 = lhs;\n    let ghost rhs0 = rhs;\n    let lhs = lhs.into_mut().unwrap();"
for _fn, _call, _tail, _res in (("exec", "*lhs = function(lhs.clone(), rhs);", "    lhs.clone()\n}", "lhs.content"),
                                ("try_exec", "*lhs = function(lhs.clone(), rhs)?;", "    Ok(lhs.clone())\n}",
                                 "Ok::<Variable, ExecError>(lhs.content)")):
    _id = f"assign.{_fn}.stored"
    unit(id=_id, src=ASSIGN, path=[("fn", _fn)], mod="assign",
         requires=["lhs is Mut", "call_requires(function, (cell_content(lhs), rhs))"],
         injections=[
             ("let lhs = lhs.into_mut().unwrap();", _G0),
             ("*lhs = function(", f"proof {{ /*@obl:{_id}.nothing_stored_before_the_operator_returns*/ assert(lhs.content == cell_content(lhs0)); }}\n    *lhs = function("),
             (_tail, f"    proof {{ /*@obl:{_id}.stores_the_operator_result_it_yields*/ "
                     f"assert(call_ensures(function, (cell_content(lhs0), rhs0), {_res})); }}\n{_tail}"),
         ],
         ensures=[
             (f"{_id}.nothing_stored_before_the_operator_returns", ["C13"], None),
             (f"{_id}.stores_the_operator_result_it_yields", ["C13"], None),
             (f"{_id}.yields_operator_applied_to_content_at_update", ["C13"],
              "call_ensures(function, (cell_content(lhs), rhs), r)"),
         ])
