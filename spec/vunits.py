"""Functions under contract for back end V (Verus).

Each unit names one function of /repo by file + item path; its body is copied verbatim
at every run.  `requires` come from the call sites (type checker guarantees / tag rows
of can_be_used), `ensures` clauses come from the property statements; each clause is a
named obligation `Cxx.<fn>.<clause>` tagged with the properties it serves.
"""
UNITS = []
MATH = "src/instruction/bin_op/math/"


def unit(**kw):
    kw.setdefault("safe_props", sorted({p for _o, ps, _c in kw.get("ensures", []) for p in ps}))
    kw["safe_id"] = kw["id"] + ".safe"
    UNITS.append(kw)
    return kw


INT2 = "lhs is Int && rhs is Int"


def sem_binop(r, b):
    """`r` evaluates, in every state, as the semantic function of the binary operation `b` prescribes
    (two quantifiers with one trigger each: result and state)"""
    return (f"(forall|s: int| refines(#[trigger] eval_res({r}, s), binop_res({b}, s))) "
            f"&& (forall|s: int| #[trigger] eval_st({r}, s) == binop_st({b}, s))")


def sem_unop(r, u):
    return (f"(forall|s: int| #[trigger] eval_res({r}, s) == unop_res({u}, s)) "
            f"&& (forall|s: int| #[trigger] eval_st({r}, s) == unop_st({u}, s))")


def sem_ifelse(r, x):
    return (f"(forall|s: int| #[trigger] eval_res({r}, s) == ifelse_res({x}, s)) "
            f"&& (forall|s: int| #[trigger] eval_st({r}, s) == ifelse_st({x}, s))")

# ---------------------------------------------------------------- C08 scalar leaves ---
unit(id="add.exec", src=MATH + "add.rs", path=[("fn", "exec")], mod="add",
     requires=[INT2],
     ensures=[
         ("add.exec.int_wrap", ["C08"], "r == Variable::Int(wrap64(lhs->Int_0 + rhs->Int_0) as i64)"),
     ])
unit(id="subtract.exec", src=MATH + "subtract.rs", path=[("fn", "exec")], mod="subtract",
     requires=[INT2],
     ensures=[
         ("subtract.exec.int_wrap", ["C08"], "r == Variable::Int(wrap64(lhs->Int_0 - rhs->Int_0) as i64)"),
     ])
unit(id="multiply.exec", src=MATH + "multiply.rs", path=[("fn", "exec")], mod="multiply",
     requires=[INT2],
     ensures=[
         ("multiply.exec.int_wrap", ["C08"], "r == Variable::Int(wrap64(lhs->Int_0 * rhs->Int_0) as i64)"),
     ])
unit(id="divide.exec", src=MATH + "divide.rs", path=[("fn", "exec")], mod="divide",
     requires=["dividend is Int && divisor is Int"],
     ensures=[
         ("divide.exec.zero_iff_error", ["C08"], "divisor->Int_0 == 0 <==> r is Err"),
         ("divide.exec.error_kind", ["C08"], "r is Err ==> r->Err_0 is ZeroDivision"),
         ("divide.exec.trunc_value", ["C08"],
          "divisor->Int_0 != 0 ==> r == Ok::<Variable, ExecError>(Variable::Int(wrap64(trunc_div(dividend->Int_0 as int, divisor->Int_0 as int)) as i64))"),
         ("divide.exec.min_by_minus_one", ["C08"],
          "dividend->Int_0 == i64::MIN && divisor->Int_0 == -1 ==> r == Ok::<Variable, ExecError>(Variable::Int(i64::MIN))"),
     ])
unit(id="modulo.exec", src=MATH + "modulo.rs", path=[("fn", "exec")], mod="modulo",
     requires=["dividend is Int && divisor is Int"],
     ensures=[
         ("modulo.exec.zero_iff_error", ["C08"], "divisor->Int_0 == 0 <==> r is Err"),
         ("modulo.exec.error_kind", ["C08"], "r is Err ==> r->Err_0 is ZeroModulo"),
         ("modulo.exec.rem_value", ["C08"],
          "divisor->Int_0 != 0 ==> r == Ok::<Variable, ExecError>(Variable::Int(trunc_rem(dividend->Int_0 as int, divisor->Int_0 as int) as i64))"),
         ("modulo.exec.min_by_minus_one", ["C08"],
          "dividend->Int_0 == i64::MIN && divisor->Int_0 == -1 ==> r == Ok::<Variable, ExecError>(Variable::Int(0))"),
     ])
unit(id="pow.wrapping_pow", src=MATH + "pow.rs", path=[("fn", "wrapping_pow")], mod="pow", fragments=["powlemmas"],
     injections=[
         ("let mut result: i64 = 1;",
          "let ghost b0 = base as int;\n    let ghost e0 = exp as nat;\n    let mut result: i64 = 1;\n"
          "    proof { vstd::arithmetic::mul::lemma_mul_basics(pow(b0, e0)); }"),
         ("while exp > 0 {",
          "while exp > 0\n        invariant (result as int * pow(base as int, exp as nat)) % m64() == pow(b0, e0) % m64(),\n"
          "        decreases exp,\n    {\n        let ghost (r_old, b_old, e_old) = (result as int, base as int, exp as nat);"),
         ("exp /= 2;",
          "exp /= 2;\n        proof {\n            lemma_wrap_mod(b_old * b_old);\n"
          "            if e_old % 2 == 1 { lemma_wrap_mod(r_old * b_old); }\n"
          "            lemma_pow_step(r_old, b_old, e_old, result as int, base as int);\n        }"),
         ("    }\n    result\n",
          "    }\n    proof {\n        vstd::arithmetic::power::lemma_pow0(base as int);\n"
          "        vstd::arithmetic::mul::lemma_mul_basics(result as int);\n"
          "        lemma_wrap_unique(result as int, pow(b0, e0));\n    }\n    result\n"),
     ],
     ensures=[
         ("pow.wrapping_pow.modular_power", ["C08"], "r as int == wrap64(pow(base as int, exp as nat))"),
     ])
unit(id="pow.exec", src=MATH + "pow.rs", path=[("fn", "exec")], mod="pow", stubs=["pow.wrapping_pow"],
     requires=["base is Int && exp is Int"],
     ensures=[
         ("pow.exec.negative_iff_error", ["C08"], "exp->Int_0 < 0 <==> r is Err"),
         ("pow.exec.error_kind", ["C08"], "r is Err ==> r->Err_0 is NegativeExponent"),
         ("pow.exec.value", ["C08"],
          "exp->Int_0 >= 0 ==> r == Ok::<Variable, ExecError>(Variable::Int(wrap64(pow(base->Int_0 as int, exp->Int_0 as nat)) as i64))"),
     ])

# ---------------------------------------------------------------- abstract-machine units ---
INS = "src/instruction.rs"
CF = "src/instruction/control_flow/"
S0 = "old(interpreter).st@"
S9 = "final(interpreter).st@"

unit(id="iws.exec", src=INS, path=[("impl", "Exec for InstructionWithStr"), ("fn", "exec")],
     impl="InstructionWithStr",
     ensures=[
         ("iws.exec.delegates", ["C07", "C12"],
          f"r == eval_res(self.instruction, {S0}) && {S9} == eval_st(self.instruction, {S0})"),
     ])

COND = f"eval_res(self.condition.instruction, {S0})"
COND_ST = f"eval_st(self.condition.instruction, {S0})"
unit(id="ifelse.exec", src=CF + "if_else.rs", path=[("impl", "Exec for IfElse"), ("fn", "exec")],
     impl="IfElse", stubs=["iws.exec"], fragments=["opspecs", "semantics"],
     requires=[f"{COND} is Ok ==> {COND}->Ok_0 is Bool"],
     ensures=[
         ("ifelse.exec.condition_error_stops", ["C07", "C12"],
          f"{COND} is Err ==> r == {COND} && {S9} == {COND_ST}"),
         ("ifelse.exec.true_runs_first_branch_only", ["C07", "C12"],
          f"{COND} == Ok::<Variable, ExecStop>(Variable::Bool(true)) ==> "
          f"r == eval_res(self.if_true.instruction, {COND_ST}) && {S9} == eval_st(self.if_true.instruction, {COND_ST})"),
         ("ifelse.exec.is_the_semantic_function_ifelse_res", ["C04", "C07", "C12"],
          f"r == ifelse_res(*self, {S0}) && {S9} == ifelse_st(*self, {S0})"),
         ("ifelse.exec.false_runs_second_branch_only", ["C07", "C12"],
          f"{COND} == Ok::<Variable, ExecStop>(Variable::Bool(false)) ==> "
          f"r == eval_res(self.if_false.instruction, {COND_ST}) && {S9} == eval_st(self.if_false.instruction, {COND_ST})"),
     ])

LOGIC = "src/instruction/bin_op/logic.rs"
for _m, _dec, _short in (("and", "false", "false"), ("or", "true", "true")):
    unit(id=f"{_m}.exec", src=LOGIC, path=[("mod", _m), ("fn", "exec")], mod=_m,
         requires=["lhs is Bool"],
         ensures=[
             (f"{_m}.exec.short_circuit", ["C07"],
              f"lhs == Variable::Bool({_dec}) ==> r == Ok::<Variable, ExecStop>(Variable::Bool({_short})) && {S9} == {S0}"),
             (f"{_m}.exec.rhs_once_when_undecided", ["C07"],
              f"lhs == Variable::Bool(!{_dec}) ==> r == eval_res(*rhs, {S0}) && {S9} == eval_st(*rhs, {S0})"),
         ])

# ---------------------------------------------------------------- assignment plumbing -----
ASSIGN = "src/instruction/bin_op/assign.rs"
unit(id="assign.exec", src=ASSIGN, path=[("fn", "exec")], mod="assign",
     requires=["lhs is Mut", "call_requires(function, (cell_content(lhs), rhs))"],
     ensures=[
         ("assign.exec.yields_operator_applied_to_content_at_update", ["C08"],
          "call_ensures(function, (cell_content(lhs), rhs), r)"),
     ])
unit(id="assign.try_exec", src=ASSIGN, path=[("fn", "try_exec")], mod="assign",
     requires=["lhs is Mut", "call_requires(function, (cell_content(lhs), rhs))"],
     ensures=[
         ("assign.try_exec.yields_operator_result_or_its_error", ["C08"],
          "call_ensures(function, (cell_content(lhs), rhs), r)"),
     ])

# ---------------------------------------------------------------- BinOperation::exec ------
BINOP = "src/instruction/bin_op.rs"
L = f"eval_res(self.lhs, {S0})"
S1 = f"eval_st(self.lhs, {S0})"
R = f"eval_res(self.rhs, {S1})"
S2 = f"eval_st(self.rhs, {S1})"
OKV = "Ok::<Variable, ExecStop>"
_strict = "!(self.op is And) && !(self.op is Or)"
_both = f"{_strict} && {L} is Ok && {R} is Ok"
_ens = [
    ("binop.exec.lhs_first_error_stops", ["C07"], f"{L} is Err ==> r == {L} && {S9} == {S1}"),
    ("binop.exec.and_short_circuit", ["C07"],
     f"self.op is And && {L} == {OKV}(Variable::Bool(false)) ==> r == {OKV}(Variable::Bool(false)) && {S9} == {S1}"),
    ("binop.exec.and_rhs_once", ["C07"],
     f"self.op is And && {L} == {OKV}(Variable::Bool(true)) ==> r == {R} && {S9} == {S2}"),
    ("binop.exec.or_short_circuit", ["C07"],
     f"self.op is Or && {L} == {OKV}(Variable::Bool(true)) ==> r == {OKV}(Variable::Bool(true)) && {S9} == {S1}"),
    ("binop.exec.or_rhs_once", ["C07"],
     f"self.op is Or && {L} == {OKV}(Variable::Bool(false)) ==> r == {R} && {S9} == {S2}"),
    ("binop.exec.rhs_second_once", ["C07"], f"{_strict} && {L} is Ok ==> {S9} == {S2}"),
    ("binop.exec.rhs_error_stops", ["C07"], f"{_strict} && {L} is Ok && {R} is Err ==> r == {R}"),
]
_PURE = [("Add", "add"), ("Subtract", "subtract"), ("Multiply", "multiply"), ("Equal", "equal"),
         ("NotEqual", "not_equal"), ("Greater", "greater"), ("GreaterOrEqual", "greater_equal"),
         ("Lower", "lower"), ("LowerOrEqual", "lower_equal"), ("BitwiseAnd", "bitwise_and"),
         ("BitwiseOr", "bitwise_or"), ("Xor", "xor")]
_FALL = [("Divide", "divide"), ("Modulo", "modulo"), ("Pow", "pow"), ("LShift", "lshift"), ("RShift", "rshift"),
         ("Filter", "filter"), ("Map", "map"), ("At", "at"), ("FunctionCall", "call"), ("Partition", "partition")]
_C08OPS = {"Add", "Subtract", "Multiply", "Greater", "GreaterOrEqual", "Lower", "LowerOrEqual", "BitwiseAnd",
           "BitwiseOr", "Xor", "Divide", "Modulo", "Pow", "LShift", "RShift"}


def _props(v):
    ps = []
    if v in _C08OPS:
        ps.append("C08")
    if v in ("Equal", "NotEqual"):
        ps.append("C19")
    if v == "At":
        ps.append("C09")
    return ps or ["C07"]


for _v, _m in _PURE:
    _ens.append((f"binop.exec.dispatch_{_m}", _props(_v),
                 f"self.op is {_v} && {_both} ==> r == {OKV}(op_{_m}({L}->Ok_0, {R}->Ok_0))"))
for _v, _m in _FALL:
    _ens.append((f"binop.exec.dispatch_{_m}", _props(_v),
                 f"self.op is {_v} && {_both} ==> (match op_{_m}({L}->Ok_0, {R}->Ok_0) {{ "
                 f"Ok(v) => r == {OKV}(v), Err(e) => r is Err }})"))
_ASSIGN_PURE = [("AssignAdd", "add"), ("AssignSubtract", "subtract"), ("AssignMultiply", "multiply"),
                ("AssignBitwiseAnd", "bitwise_and"), ("AssignBitwiseOr", "bitwise_or"), ("AssignXor", "xor")]
_ASSIGN_FALL = [("AssignDivide", "divide"), ("AssignModulo", "modulo"), ("AssignLShift", "lshift"),
                ("AssignRShift", "rshift"), ("AssignPow", "pow")]
for _v, _m in _ASSIGN_PURE:
    _ens.append((f"binop.exec.compound_{_m}", ["C08", "C13"],
                 f"self.op is {_v} && {_both} ==> r == {OKV}(op_{_m}(cell_content({L}->Ok_0), {R}->Ok_0))"))
for _v, _m in _ASSIGN_FALL:
    _ens.append((f"binop.exec.compound_{_m}", ["C08", "C13"],
                 f"self.op is {_v} && {_both} ==> (match op_{_m}(cell_content({L}->Ok_0), {R}->Ok_0) {{ "
                 f"Ok(v) => r == {OKV}(v), Err(e) => r is Err }})"))
_ens.append(("binop.exec.plain_assignment_yields_the_value", ["C13"],
             f"self.op is Assign && {_both} ==> r == {OKV}({R}->Ok_0)"))
_ens.append(("binop.exec.is_the_semantic_function_binop_res", ["C04", "C07", "C08"],
             f"is_plain_binop(self.op) || self.op is And || self.op is Or ==> "
             f"refines(r, binop_res(*self, {S0})) && {S9} == binop_st(*self, {S0})"))
unit(id="binop.exec", src=BINOP, path=[("impl", "Exec for BinOperation"), ("fn", "exec")],
     impl="BinOperation", stubs=["and.exec", "or.exec", "assign.exec", "assign.try_exec"],
     fragments=["opspecs", "opstubs", "semantics"],
     # annotation of the closure of plain `=` (Verus gives un-annotated closures no callable spec and rejects `_` parameters):
     # parameter types, a named result and `ensures y == b` are added, the body `b` is untouched
     # (a rule with identifier holes: any closure of two plain parameters whose body is its second parameter)
     rewrites=[(r"re:\|(_[a-z_0-9]*|[a-z][a-z_0-9]*), ([a-z][a-z_0-9]*)\| \2(?![a-z_0-9(.\[])",
                r"|_a: Variable, \2: Variable| -> (y: Variable) ensures y == \2 { \2 }")],
     # without the annotation the closure has no callable specification: the clause is then undecidable, not false
     needs_rewrite={"binop.exec.plain_assignment_yields_the_value": "ensures y =="},
     requires=[f"(self.op is And || self.op is Or) && {L} is Ok ==> {L}->Ok_0 is Bool",
               "(" + " || ".join(f"self.op is {v}" for v in ["Assign"] + [a for a, _m in
                   [("AssignAdd", 0), ("AssignSubtract", 0), ("AssignMultiply", 0), ("AssignDivide", 0), ("AssignModulo", 0),
                    ("AssignLShift", 0), ("AssignRShift", 0), ("AssignBitwiseAnd", 0), ("AssignBitwiseOr", 0),
                    ("AssignXor", 0), ("AssignPow", 0)]]) + f") && {L} is Ok ==> {L}->Ok_0 is Mut"],
     ensures=_ens)

# ---------------------------------------------------------------- UnaryOperation::exec ----
UNOP = "src/instruction/unary_operation.rs"
E = f"eval_res(self.instruction, {S0})"
E_ST = f"eval_st(self.instruction, {S0})"
unit(id="unop.exec", src=UNOP, path=[("impl", "Exec for UnaryOperation"), ("fn", "exec")],
     impl="UnaryOperation", fragments=["opspecs", "unstubs", "semantics"],
     requires=[
         "!(self.op is All) && !(self.op is Any) && !(self.op is BitAnd) && !(self.op is BitOr)",
         f"self.op is FunctionCall && {E} is Ok ==> {E}->Ok_0 is Function",
     ],
     ensures=[
         ("unop.exec.operand_error_stops", ["C07"], f"{E} is Err ==> r == {E} && {S9} == {E_ST}"),
         ("unop.exec.operand_once_before_operator", ["C07"],
          f"!(self.op is FunctionCall) && !(self.op is Collect) ==> {S9} == {E_ST}"),
         ("unop.exec.is_the_semantic_function_unop_res", ["C04", "C07", "C08"],
          f"(self.op is Not || self.op is UnaryMinus) ==> r == unop_res(*self, {S0}) && {S9} == unop_st(*self, {S0})"),
         ("unop.exec.dispatch_not", ["C08"], f"self.op is Not && {E} is Ok ==> r == {OKV}(op_not({E}->Ok_0))"),
         ("unop.exec.dispatch_unary_minus", ["C08"],
          f"self.op is UnaryMinus && {E} is Ok ==> r == {OKV}(op_unary_minus({E}->Ok_0))"),
         ("unop.exec.return_signals", ["C12"],
          f"self.op is Return && {E} is Ok ==> r == Err::<Variable, ExecStop>(ExecStop::Return({E}->Ok_0))"),
         ("unop.exec.dispatch_indirection", ["C07", "C13"],
          f"self.op is Indirection && {E} is Ok ==> r == {OKV}(op_indirection({E}->Ok_0))"),
         ("unop.exec.dispatch_iter", ["C07"], f"self.op is Iter && {E} is Ok ==> r == {OKV}(op_iter({E}->Ok_0))"),
         ("unop.exec.dispatch_sum", ["C07"],
          f"self.op is Sum && {E} is Ok ==> (match op_sum({E}->Ok_0) {{ Ok(v) => r == {OKV}(v), Err(e) => r is Err }})"),
         ("unop.exec.dispatch_product", ["C07"],
          f"self.op is Product && {E} is Ok ==> (match op_product({E}->Ok_0) {{ Ok(v) => r == {OKV}(v), Err(e) => r is Err }})"),
     ])

# ---------------------------------------------------------------- if-set / set / loop -----
X = f"eval_res(self.expression.instruction, {S0})"
X_ST = f"eval_st(self.expression.instruction, {S0})"
_LAYER = f"st_insert(st_layer({X_ST}), self.ident, {X}->Ok_0)"
unit(id="setifelse.exec", src=CF + "set_if_else.rs", path=[("impl", "Exec for SetIfElse"), ("fn", "exec")],
     impl="SetIfElse", stubs=["iws.exec"],
     ensures=[
         ("setifelse.exec.expression_error_stops", ["C07", "C12"], f"{X} is Err ==> r == {X} && {S9} == {X_ST}"),
         ("setifelse.exec.match_runs_body_with_binding", ["C07", "C12"],
          f"{X} is Ok && spec_matches(spec_as_type({X}->Ok_0), self.var_type) ==> "
          f"r == eval_res(self.if_match.instruction, {_LAYER}) && {S9} == {X_ST}"),
         ("setifelse.exec.no_match_runs_else_only", ["C07", "C12"],
          f"{X} is Ok && !spec_matches(spec_as_type({X}->Ok_0), self.var_type) ==> "
          f"r == eval_res(self.else_instruction.instruction, {X_ST}) && {S9} == eval_st(self.else_instruction.instruction, {X_ST})"),
     ])
V_ = f"eval_res(self.instruction.instruction, {S0})"
V_ST = f"eval_st(self.instruction.instruction, {S0})"
unit(id="set.exec", src="src/instruction/set.rs", path=[("impl", "Exec for Set"), ("fn", "exec")],
     impl="Set", stubs=["iws.exec"],
     ensures=[
         ("set.exec.expression_error_stops", ["C07"], f"{V_} is Err ==> r == {V_} && {S9} == {V_ST}"),
         ("set.exec.binds_after_evaluating_once", ["C07"],
          f"{V_} is Ok ==> r == {V_} && {S9} == st_insert({V_ST}, self.ident, {V_}->Ok_0)"),
     ])
_LB = "eval_res(self.0.instruction, s0)"
unit(id="loop.exec", src="src/instruction/loop.rs", path=[("impl", "Exec for Loop"), ("fn", "exec")],
     impl="Loop", stubs=["iws.exec"],
     fn_attrs=["#[verifier::exec_allows_no_decreases_clause]"],
     # ghost iteration counter: what is known about the FIRST iteration has to be carried as an invariant (loop bodies are checked in isolation)
     injections=[("loop {\n",
                  "let ghost s0 = interpreter.st@;\n        let ghost mut n: nat = 0;\n        loop\n"
                  "            invariant_except_break\n"
                  f"                n > 0 ==> ({_LB} is Ok || {_LB} == Err::<Variable, ExecStop>(ExecStop::Continue)),\n"
                  "            invariant\n"
                  "                s0 == old(interpreter).st@, n == 0 ==> interpreter.st@ == s0,\n"
                  "            ensures\n"
                  f"                n >= 1, n == 1 ==> ({_LB} == Err::<Variable, ExecStop>(ExecStop::Break) && interpreter.st@ == eval_st(self.0.instruction, s0)),\n"
                  f"                n > 1 ==> ({_LB} is Ok || {_LB} == Err::<Variable, ExecStop>(ExecStop::Continue)),\n"
                  "        {\n            proof { n = n + 1; }\n")],
     ensures=[
         ("loop.exec.value_is_void", ["C12"], f"r is Ok ==> r == {OKV}(Variable::Void)"),
         ("loop.exec.break_continue_do_not_escape", ["C12"],
          "r is Err ==> (r->Err_0 is Return || r->Err_0 is Error)"),
         # the body runs directly in the loop's own scope (the layer of an iteration belongs to the body's block): when the
         # first iteration already leaves the loop, the state is the one that iteration left, and the signal / value is its own
         ("loop.exec.first_iteration_runs_in_the_enclosing_scope_and_its_exit_is_the_loops", ["C12", "C06"],
          f"(eval_res(self.0.instruction, {S0}) == Err::<Variable, ExecStop>(ExecStop::Break) ==> r == {OKV}(Variable::Void) && {S9} == eval_st(self.0.instruction, {S0})) "
          f"&& (eval_res(self.0.instruction, {S0}) is Err && (eval_res(self.0.instruction, {S0})->Err_0 is Return || eval_res(self.0.instruction, {S0})->Err_0 is Error) "
          f"==> r == eval_res(self.0.instruction, {S0}) && {S9} == eval_st(self.0.instruction, {S0}))"),
     ])

# ---------------------------------------------------------------- block / function --------
_BSEQ = f"seq_res(self.instructions@, st_layer({S0}), 0, Seq::empty())"
unit(id="block.exec", src="src/instruction/block.rs", path=[("impl", "Exec for Block"), ("fn", "exec")],
     impl="Block",
     ensures=[
         ("block.exec.stop_propagates", ["C12"], f"{_BSEQ} is Err ==> r == Err::<Variable, ExecStop>({_BSEQ}->Err_0)"),
         ("block.exec.value_of_last_statement", ["C12"],
          f"{_BSEQ} is Ok && {_BSEQ}->Ok_0.len() > 0 ==> r == {OKV}({_BSEQ}->Ok_0[{_BSEQ}->Ok_0.len() - 1])"),
         ("block.exec.empty_is_void", ["C12"], f"{_BSEQ} is Ok && {_BSEQ}->Ok_0.len() == 0 ==> r == {OKV}(Variable::Void)"),
         ("block.exec.runs_in_new_layer", ["C12"], f"{S9} == {S0}"),
     ])
_FSEQ = f"seq_res(self.body->Lang_0@, {S0}, 0, Seq::empty())"
unit(id="function.exec", src="src/function.rs", path=[("impl", "Function"), ("fn", "exec")],
     impl="Function",
     rewrites=[("return (body)(interpreter)", "return NativeFn::call(body, interpreter)")],
     requires=[f"self.body is Lang && {_FSEQ} is Err ==> !({_FSEQ}->Err_0 is Break) && !({_FSEQ}->Err_0 is Continue)"],
     ensures=[
         ("function.exec.falling_off_end_is_void", ["C12"],
          f"self.body is Lang && {_FSEQ} is Ok ==> r == Ok::<Variable, ExecError>(Variable::Void)"),
         ("function.exec.return_yields_value", ["C12"],
          f"self.body is Lang && {_FSEQ} is Err && {_FSEQ}->Err_0 is Return ==> r == Ok::<Variable, ExecError>({_FSEQ}->Err_0->Return_0)"),
         ("function.exec.error_passes", ["C12"],
          f"self.body is Lang && {_FSEQ} is Err && {_FSEQ}->Err_0 is Error ==> r == Err::<Variable, ExecError>({_FSEQ}->Err_0->Error_0)"),
     ])

# ---------------------------------------------------------------- match -------------------
MARM = CF + "match_arm.rs"
unit(id="matcharm.exec", src=MARM, path=[("impl", "MatchArm"), ("fn", "exec")], impl="MatchArm",
     stubs=["iws.exec"],
     ensures=[
         ("matcharm.exec.runs_arm_body", ["C12"],
          f"r == arm_exec_res(*self, variable, {S0}) && {S9} == arm_exec_st(*self, variable, {S0})"),
     ])
unit(id="matcharm.covers", src=MARM, path=[("impl", "MatchArm"), ("fn", "covers")], impl="MatchArm",
     stubs=["iws.exec"],
     injections=[
         ("Ok(match self {", "let ghost s0 = interpreter.st@;\n        Ok(match self {"),
         ("for instruction in instructions.iter() {",
          "for instruction in it: instructions.iter()\n"
          "                    invariant\n"
          "                        s0 == old(interpreter).st@,\n"
          "                        *self is Value && self->Value_0@ == instructions@,\n"
          "                        it.seq().len() == instructions@.len(),\n"
          "                        forall|j: int| 0 <= j < it.seq().len() ==> *it.seq()[j] == instructions@[j],\n"
          "                        cand_res(instructions@, *variable, s0, 0) == cand_res(instructions@, *variable, interpreter.st@, it.index@),\n"
          "                        cand_st(instructions@, *variable, s0, 0) == cand_st(instructions@, *variable, interpreter.st@, it.index@),\n"
          "                {"),
     ],
     ensures=[
         ("matcharm.covers.candidates_top_to_bottom_until_first_equal", ["C07", "C12", "C19"],
          f"r == arm_covers_res(*self, *variable, {S0}) && {S9} == arm_covers_st(*self, *variable, {S0})"),
     ])
M = f"eval_res(self.expression.instruction, {S0})"
M_ST = f"eval_st(self.expression.instruction, {S0})"
unit(id="match.exec", src=CF + "match.rs", path=[("impl", "Exec for Match"), ("fn", "exec")], impl="Match",
     stubs=["iws.exec", "matcharm.covers", "matcharm.exec"],
     requires=[f"{M} is Ok ==> match_decided(self.arms@, {M}->Ok_0, {M_ST}, 0)"],
     injections=[
         ("let variable = self.expression.exec(interpreter)?;",
          "let variable = self.expression.exec(interpreter)?;\n        let ghost s1 = interpreter.st@;"),
         ("for arm in self.arms.iter() {",
          "for arm in it: self.arms.iter()\n"
          "            invariant\n"
          f"                {M} == {OKV}(variable) && s1 == {M_ST},\n"
          "                it.seq().len() == self.arms@.len(),\n"
          "                forall|j: int| 0 <= j < it.seq().len() ==> *it.seq()[j] == self.arms@[j],\n"
          "                match_res(self.arms@, variable, s1, 0) == match_res(self.arms@, variable, interpreter.st@, it.index@),\n"
          "                match_st(self.arms@, variable, s1, 0) == match_st(self.arms@, variable, interpreter.st@, it.index@),\n"
          "                match_decided(self.arms@, variable, s1, 0) == match_decided(self.arms@, variable, interpreter.st@, it.index@),\n"
          "                match_decided(self.arms@, variable, s1, 0),\n"
          "        {"),
     ],
     ensures=[
         ("match.exec.scrutinee_error_stops", ["C07", "C12"], f"{M} is Err ==> r == {M} && {S9} == {M_ST}"),
         ("match.exec.first_covering_arm_top_to_bottom", ["C07", "C12"],
          f"{M} is Ok ==> r == match_res(self.arms@, {M}->Ok_0, {M_ST}, 0) && {S9} == match_st(self.arms@, {M}->Ok_0, {M_ST}, 0)"),
     ])

# ---------------------------------------------------------------- C09 indexing / len ------
unit(id="stdlib.len", src="src/stdlib.rs", path=[("fn", "len")], mod="stdlib_len",
     requires=["variable is Array || variable is String"],
     ensures=[
         ("stdlib.len.counts_elements_or_scalar_values", ["C09"], "r == spec_len(*variable)"),
     ])
_N = "(spec_len(variable) as int)"
_I = "(index->Int_0 as int)"
_INR = f"(-({_N}) <= {_I} && {_I} < {_N})"
_POS = f"(if {_I} >= 0 {{ {_I} }} else {{ {_N} + {_I} }})"
unit(id="at.exec", src="src/instruction/at.rs", path=[("fn", "exec")], mod="at",
     stubs=["stdlib.len"], extra="use stdlib_len::len;\n",
     requires=["variable is Array || variable is String", "index is Int", "spec_len(variable) <= isize::MAX as nat"],
     # annotation of the closure that turns the selected scalar value into a string (no callable spec otherwise)
     injections=[(".map(|ch| ch.to_string().into()),",
                  ".map(|ch: Ch| -> (y: Variable) ensures y == Variable::String(Str { chars: Ghost(seq![ch.ch@]) }) { ch.to_string().into() }),")],
     ensures=[
         ("at.exec.string_scalar_value", ["C09"],
          f"{_INR} && variable is String ==> r == Ok::<Variable, ExecError>(Variable::String(Str {{ chars: Ghost(seq![variable->String_0.chars@[{_POS}]]) }}))"),
         ("at.exec.in_range_ok", ["C09"], f"{_INR} ==> r is Ok"),
         ("at.exec.out_of_range_error", ["C09"], f"!{_INR} ==> r is Err && r->Err_0 is IndexOutOfBounds"),
         ("at.exec.array_element", ["C09"],
          f"{_INR} && variable is Array ==> r == Ok::<Variable, ExecError>(variable->Array_0.elems@[{_POS}])"),
         # (the closure `|ch| ch.to_string().into()` of the string arm is annotated by injection, see above)
     ])

# ---------------------------------------------------------------- C04 recreate family -----
RS0 = "old(local_variables).st@"
RS9 = "final(local_variables).st@"
for _m, _dec in (("and", "false"), ("or", "true")):
    _nd = "true" if _dec == "false" else "false"
    unit(id=f"{_m}.create_from_instructions", src=LOGIC, path=[("mod", _m), ("fn", "create_from_instructions")], mod=_m,
         fragments=["opspecs", "semantics"], broadcast=["sem_axioms::sem"],
         requires=["lhs is Variable ==> lhs->Variable_0 is Bool"],
         ensures=[
             (f"{_m}.fold.unobservable", ["C04", "C07"],
              sem_binop("r", f"unfolded(lhs, rhs, BinOperator::{_m.capitalize()})")),
             (f"{_m}.fold.deciding_constant_drops_rhs", ["C04", "C07"],
              f"lhs == Instruction::Variable(Variable::Bool({_dec})) ==> r == Instruction::Variable(Variable::Bool({_dec}))"),
             (f"{_m}.fold.non_deciding_constant_yields_rhs_untouched", ["C04", "C07"],
              f"lhs == Instruction::Variable(Variable::Bool({_nd})) ==> r == rhs"),
             (f"{_m}.fold.non_constant_rebuilt_in_place", ["C04", "C07"],
              f"!(lhs is Variable) ==> r == Instruction::BinOperation(Arc::new(BinOperation {{ lhs, rhs, op: BinOperator::{_m.capitalize()} }}))"),
         ])
    unit(id=f"{_m}.recreate", src=LOGIC, path=[("mod", _m), ("fn", "recreate")], mod=_m,
         fragments=["opspecs", "semantics"], broadcast=["sem_axioms::sem"],
         requires=["lhs is Variable ==> lhs->Variable_0 is Bool"],
         ensures=[
             (f"{_m}.recreate.unobservable", ["C04", "C07"],
              f"r is Ok ==> (" + sem_binop("r->Ok_0", f"unfolded(lhs, *rhs, BinOperator::{_m.capitalize()})") + ")"),
             (f"{_m}.recreate.deciding_constant_drops_rhs", ["C04", "C07"],
              f"lhs == Instruction::Variable(Variable::Bool({_dec})) ==> "
              f"r == Ok::<Instruction, ExecError>(Instruction::Variable(Variable::Bool({_dec}))) && {RS9} == {RS0}"),
             (f"{_m}.recreate.non_deciding_constant_yields_recreated_rhs", ["C04", "C07"],
              f"lhs == Instruction::Variable(Variable::Bool({_nd})) ==> r == rec_res(*rhs, {RS0}) && {RS9} == rec_st(*rhs, {RS0})"),
             (f"{_m}.recreate.non_constant_rebuilt_in_place", ["C04", "C07"],
              f"!(lhs is Variable) ==> (match rec_res(*rhs, {RS0}) {{ "
              f"Ok(rr) => r == Ok::<Instruction, ExecError>(Instruction::BinOperation(Arc::new(BinOperation {{ lhs, rhs: rr, op: BinOperator::{_m.capitalize()} }}))), "
              f"Err(e) => r == Err::<Instruction, ExecError>(e) }})"),
         ])

unit(id="iws.recreate", src=INS, path=[("impl", "InstructionWithStr"), ("fn", "recreate")], impl="InstructionWithStr",
     ensures=[
         ("iws.recreate.delegates", ["C04"],
          f"(match rec_res(self.instruction, {RS0}) {{ Ok(i) => r is Ok && r->Ok_0.instruction == i && r->Ok_0.str == self.str, "
          f"Err(e) => r is Err && r->Err_0 == e }}) && {RS9} == rec_st(self.instruction, {RS0})"),
     ])
RC = f"rec_res(self.condition.instruction, {RS0})"
RC_ST = f"rec_st(self.condition.instruction, {RS0})"
unit(id="ifelse.recreate", src=CF + "if_else.rs", path=[("impl", "Recreate for IfElse"), ("fn", "recreate")], impl="IfElse",
     stubs=["iws.recreate"], fragments=["opspecs", "semantics"], broadcast=["sem_axioms::sem"],
     requires=[f"{RC} is Ok && {RC}->Ok_0 is Variable ==> {RC}->Ok_0->Variable_0 is Bool"],
     ensures=[
         ("ifelse.recreate.unobservable", ["C04", "C07", "C12"],
          "r is Ok ==> (" + sem_ifelse("r->Ok_0", "*self") + ")"),
         ("ifelse.recreate.condition_error_stops", ["C04"], f"{RC} is Err ==> r == Err::<Instruction, ExecError>({RC}->Err_0)"),
         ("ifelse.recreate.constant_true_keeps_first_branch_only", ["C04", "C12"],
          f"{RC} == Ok::<Instruction, ExecError>(Instruction::Variable(Variable::Bool(true))) ==> "
          f"r == rec_res(self.if_true.instruction, {RC_ST}) && {RS9} == rec_st(self.if_true.instruction, {RC_ST})"),
         ("ifelse.recreate.constant_false_keeps_second_branch_only", ["C04", "C12"],
          f"{RC} == Ok::<Instruction, ExecError>(Instruction::Variable(Variable::Bool(false))) ==> "
          f"r == rec_res(self.if_false.instruction, {RC_ST}) && {RS9} == rec_st(self.if_false.instruction, {RC_ST})"),
         ("ifelse.recreate.non_constant_keeps_both_branches", ["C04"],
          f"{RC} is Ok && !({RC}->Ok_0 is Variable && {RC}->Ok_0->Variable_0 is Bool) ==> "
          f"(match rec_res(self.if_true.instruction, {RC_ST}) {{ Err(e) => r == Err::<Instruction, ExecError>(e), "
          f"Ok(t) => (match rec_res(self.if_false.instruction, rec_st(self.if_true.instruction, {RC_ST})) {{ "
          f"Err(e) => r == Err::<Instruction, ExecError>(e), "
          f"Ok(f) => r is Ok && r->Ok_0 is IfElse && r->Ok_0->IfElse_0.condition.instruction == {RC}->Ok_0 "
          f"&& r->Ok_0->IfElse_0.if_true.instruction == t && r->Ok_0->IfElse_0.if_false.instruction == f }}) }})"),
     ])

RL = f"rec_res(self.lhs, {RS0})"
RL_ST = f"rec_st(self.lhs, {RS0})"
RR = f"rec_res(self.rhs, {RL_ST})"
RR_ST = f"rec_st(self.rhs, {RL_ST})"
OKI = "Ok::<Instruction, ExecError>"
_rens = [
    ("binop.recreate.lhs_error_stops", ["C04"], f"{RL} is Err ==> r == Err::<Instruction, ExecError>({RL}->Err_0)"),
    ("binop.recreate.rhs_error_stops", ["C04"],
     f"{_strict} && {RL} is Ok && {RR} is Err ==> r == Err::<Instruction, ExecError>({RR}->Err_0)"),
    # compound assignments are not folded; their run-time meaning is binop.exec.compound_* and their recreate is the
    # structural clause other_operators_rebuilt_in_place below (binop_res does not describe them)
    ("binop.recreate.unobservable", ["C04", "C07", "C08"],
     "r is Ok && (is_plain_binop(self.op) || self.op is And || self.op is Or) ==> (" + sem_binop("r->Ok_0", "*self") + ")"),
]
_rboth = f"{RL} is Ok && {RR} is Ok"
_notfolded = ["Pow", "Filter", "Map", "FunctionCall", "Partition", "Assign", "AssignAdd", "AssignSubtract",
              "AssignMultiply", "AssignDivide", "AssignModulo", "AssignLShift", "AssignRShift", "AssignBitwiseAnd",
              "AssignBitwiseOr", "AssignXor", "AssignPow"]
_rens.append(("binop.recreate.other_operators_rebuilt_in_place", ["C04"],
              "(" + " || ".join(f"self.op is {v}" for v in _notfolded) + f") && {_rboth} ==> "
              f"r == {OKI}(Instruction::BinOperation(Arc::new(BinOperation {{ lhs: {RL}->Ok_0, rhs: {RR}->Ok_0, op: self.op }})))"))
_FOLD_UNITS = [f"{m}.create_from_instructions" for m in ("add", "subtract", "multiply", "divide", "modulo", "equal", "not_equal",
               "greater", "greater_equal", "lower", "lower_equal", "and", "or", "bitwise_and", "bitwise_or", "xor",
               "lshift", "rshift", "at")]
unit(id="binop.recreate", src=BINOP, path=[("impl", "Recreate for BinOperation"), ("fn", "recreate")], impl="BinOperation",
     stubs=["and.recreate", "or.recreate"] + _FOLD_UNITS,
     fragments=["opspecs", "semantics"], broadcast=["sem_axioms::sem"],
     requires=[f"(self.op is And || self.op is Or) && {RL} is Ok && {RL}->Ok_0 is Variable ==> {RL}->Ok_0->Variable_0 is Bool",
               f"self.op is At && {RL} is Ok && {RL}->Ok_0 is Array ==> {RL}->Ok_0->Array_0.instructions@.len() <= isize::MAX as usize"],
     ensures=_rens)
RE = f"rec_res(self.instruction, {RS0})"
unit(id="unop.recreate", src=UNOP, path=[("impl", "Recreate for UnaryOperation"), ("fn", "recreate")], impl="UnaryOperation",
     stubs=["not.create_from_instruction", "unary_minus.create_from_instruction"],
     fragments=["opspecs", "semantics"], broadcast=["sem_axioms::sem"],
     sig_rewrites=[("super::Instruction", "Instruction"), ("crate::ExecError", "ExecError")],
     ensures=[
         ("unop.recreate.operand_error_stops", ["C04"], f"{RE} is Err ==> r == Err::<Instruction, ExecError>({RE}->Err_0)"),
         ("unop.recreate.unobservable", ["C04", "C08"],
          "(self.op is Not || self.op is UnaryMinus) && r is Ok ==> (" + sem_unop("r->Ok_0", "*self") + ")"),
         ("unop.recreate.other_operators_rebuilt_in_place", ["C04"],
          f"!(self.op is Not) && !(self.op is UnaryMinus) && {RE} is Ok ==> "
          f"r == {OKI}(Instruction::UnaryOperation(Arc::new(UnaryOperation {{ instruction: {RE}->Ok_0, op: self.op }})))"),
     ])

# ---------------------------------------------------------------- fold functions ----------
unit(id="with_exec", src=BINOP, path=[("fn", "create_from_instructions_with_exec")],
     requires=["lhs is Variable && rhs is Variable ==> call_requires(exec, (lhs->Variable_0, rhs->Variable_0))"],
     ensures=[
         ("with_exec.constants_folded_by_exec", ["C04", "C08"],
          "lhs is Variable && rhs is Variable ==> r is Variable && call_ensures(exec, (lhs->Variable_0, rhs->Variable_0), r->Variable_0)"),
         ("with_exec.non_constant_rebuilt_in_place", ["C04", "C08"],
          "!(lhs is Variable && rhs is Variable) ==> r == Instruction::BinOperation(Arc::new(BinOperation { lhs, rhs, op }))"),
     ])
# purity contracts of the leaf operator functions, used only as assumed callee contracts of the fold units
_SRC_OF = {"add": (MATH + "add.rs", [("fn", "exec")], None), "subtract": (MATH + "subtract.rs", [("fn", "exec")], None),
           "multiply": (MATH + "multiply.rs", [("fn", "exec")], None),
           "divide": (MATH + "divide.rs", [("fn", "exec")], None), "modulo": (MATH + "modulo.rs", [("fn", "exec")], None),
           "equal": (BINOP, [("mod", "equal"), ("fn", "exec")], None),
           "not_equal": (BINOP, [("mod", "not_equal"), ("fn", "exec")], None)}
for _m, _col in (("greater", "ord"), ("greater_equal", "ord"), ("lower", "ord"), ("lower_equal", "ord")):
    _SRC_OF[_m] = ("src/instruction/bin_op/math.rs", [("mod", "ord"), ("fn", "exec")], dict(column="ord", value=_m))
for _m in ("bitwise_and", "bitwise_or", "xor"):
    _SRC_OF[_m] = ("src/instruction/bin_op/bitwise.rs", [("mod", "bitwise"), ("fn", "exec")], dict(column="bitwise", value=_m))
for _m in ("lshift", "rshift"):
    _SRC_OF[_m] = ("src/instruction/bin_op/shift.rs", [("mod", "shift"), ("fn", "exec")], dict(column="shift", value=_m))
_OPNAME = dict(_PURE + _FALL)
_OPNAME = {m: v for v, m in _OPNAME.items()}
for _m, (_src, _path, _dup) in _SRC_OF.items():
    _a, _b = ("dividend", "divisor") if _m in ("divide", "modulo") else ("lhs", "rhs")
    _total = []
    if _m in ("divide", "modulo"):
        # a total fact (holds for EVERY dividend), proved by the unit <m>.exec.total below
        _total = [(f"{_m}.exec.pure.zero", [], f"{_b} == Variable::Int(0) ==> r is Err")]
    unit(id=f"{_m}.exec.pure", src=_src, path=_path, mod=_m, duplicate=_dup, stub_only=True,
         ensures=[(f"{_m}.exec.pure", [], f"r == op_{_m}({_a}, {_b})")] + _total)
for _m in ("add", "subtract", "multiply", "equal", "not_equal", "greater", "greater_equal", "lower", "lower_equal",
           "bitwise_and", "bitwise_or", "xor"):
    _src, _path, _dup = _SRC_OF[_m]
    _cpath = _path[:-1] + [("fn", "create_from_instructions")]
    _ps = ["C04"] + (["C08"] if _OPNAME[_m] in _C08OPS else ["C19"])
    unit(id=f"{_m}.create_from_instructions", src=_src, path=_cpath, mod=_m, duplicate=_dup,
         stubs=[f"{_m}.exec.pure", "with_exec"], fragments=["opspecs", "semantics"],
         broadcast=["sem_axioms::sem"],
         ensures=[
             (f"{_m}.fold.unobservable", _ps,
              sem_binop("r", f"unfolded(lhs, rhs, BinOperator::{_OPNAME[_m]})")),
             (f"{_m}.fold.constants_equal_exec", _ps,
              f"lhs is Variable && rhs is Variable ==> r == Instruction::Variable(op_{_m}(lhs->Variable_0, rhs->Variable_0))"),
             (f"{_m}.fold.non_constant_rebuilt_same_operator", _ps,
              f"!(lhs is Variable && rhs is Variable) ==> "
              f"r == Instruction::BinOperation(Arc::new(BinOperation {{ lhs, rhs, op: BinOperator::{_OPNAME[_m]} }}))"),
         ])
for _m, _err in (("divide", "ZeroDivision"), ("modulo", "ZeroModulo")):
    _src, _path, _dup = _SRC_OF[_m]
    # no `requires`: the fact holds for every dividend; the panic arm of the body is then reachable, which is why
    # this unit carries no `.safe` obligation (panic freedom is proved by <m>.exec under the tag precondition)
    unit(id=f"{_m}.exec.total", src=_src, path=_path, mod=_m, no_safe=True,
         ensures=[(f"{_m}.exec.zero_divisor_errs_for_every_dividend", ["C04", "C08"],
                   f"divisor == Variable::Int(0) ==> r == Err::<Variable, ExecError>(ExecError::{_err})")])
    unit(id=f"{_m}.create_from_instructions", src=_src, path=[("fn", "create_from_instructions")], mod=_m,
         stubs=[f"{_m}.exec.pure"], fragments=["opspecs", "semantics"], broadcast=["sem_axioms::sem"],
         ensures=[
             (f"{_m}.fold.unobservable", ["C04", "C08"],
              f"r is Ok ==> (" + sem_binop("r->Ok_0", f"unfolded(dividend, divisor, BinOperator::{_OPNAME[_m]})") + ")"),
             (f"{_m}.fold.early_error_only_if_every_evaluation_fails", ["C04", "C08"],
              f"r is Err ==> (forall|s: int| #[trigger] binop_res(unfolded(dividend, divisor, BinOperator::{_OPNAME[_m]}), s) is Err)"),
             (f"{_m}.fold.constants_equal_exec", ["C04", "C08"],
              f"dividend is Variable && divisor is Variable ==> (match op_{_m}(dividend->Variable_0, divisor->Variable_0) {{ "
              f"Ok(v) => r == {OKI}(Instruction::Variable(v)), Err(e) => r == Err::<Instruction, ExecError>(e) }})"),
             (f"{_m}.fold.early_error_only_for_constant_zero_divisor", ["C04", "C08"],
              f"!(dividend is Variable && divisor is Variable) ==> "
              f"(r is Err ==> divisor == Instruction::Variable(Variable::Int(0))) && (r is Err ==> r->Err_0 is {_err})"),
             (f"{_m}.fold.non_constant_rebuilt_same_operator", ["C04", "C08"],
              f"!(dividend is Variable && divisor is Variable) && divisor != Instruction::Variable(Variable::Int(0)) ==> "
              f"r == {OKI}(Instruction::BinOperation(Arc::new(BinOperation {{ lhs: dividend, rhs: divisor, op: BinOperator::{_OPNAME[_m]} }})))"),
         ])

for _m in ("lshift", "rshift"):
    _src, _path, _dup = _SRC_OF[_m]
    unit(id=f"{_m}.create_from_instructions", src=_src, path=[("mod", "shift"), ("fn", "create_from_instructions")],
         mod=_m, duplicate=_dup, stubs=[f"{_m}.exec.pure"], fragments=["opspecs", "semantics"], broadcast=["sem_axioms::sem"],
         ensures=[
             (f"{_m}.fold.unobservable", ["C04", "C08"],
              f"r is Ok ==> (" + sem_binop("r->Ok_0", f"unfolded(lhs, rhs, BinOperator::{_OPNAME[_m]})") + ")"),
             (f"{_m}.fold.early_error_only_if_every_well_typed_evaluation_fails", ["C04", "C08"],
              f"r is Err ==> (forall|s: int| (eval_res(lhs, s) is Ok ==> eval_res(lhs, s)->Ok_0 is Int) ==> "
              f"#[trigger] binop_res(unfolded(lhs, rhs, BinOperator::{_OPNAME[_m]}), s) is Err)"),
             (f"{_m}.fold.constants_equal_exec", ["C04", "C08"],
              f"lhs is Variable && rhs is Variable ==> (match op_{_m}(lhs->Variable_0, rhs->Variable_0) {{ "
              f"Ok(v) => r == {OKI}(Instruction::Variable(v)), Err(e) => r == Err::<Instruction, ExecError>(e) }})"),
             (f"{_m}.fold.early_error_only_for_constant_out_of_range_shift", ["C04", "C08"],
              f"!(lhs is Variable && rhs is Variable) ==> "
              f"(r is Err ==> (rhs is Variable && rhs->Variable_0 is Int && !(0 <= rhs->Variable_0->Int_0 <= 63))) "
              f"&& (r is Err ==> r->Err_0 is OverflowShift)"),
             (f"{_m}.fold.non_constant_rebuilt_same_operator", ["C04", "C08"],
              f"!(lhs is Variable && rhs is Variable) && r is Ok ==> "
              f"r == {OKI}(Instruction::BinOperation(Arc::new(BinOperation {{ lhs, rhs, op: BinOperator::{_OPNAME[_m]} }})))"),
         ])

# ---------------------------------------------------------------- array repeat -------------
AV = f"eval_res(self.value.instruction, {S0})"
AV_ST = f"eval_st(self.value.instruction, {S0})"
AL = f"eval_res(self.len.instruction, {AV_ST})"
AL_ST = f"eval_st(self.len.instruction, {AV_ST})"
_VAR_REPEAT = ("var!([value; len])", "Variable::Array(Array::new_repeat(value, len as usize).into())")
unit(id="arrayrepeat.exec", src="src/instruction/array_repeat.rs", path=[("impl", "Exec for ArrayRepeat"), ("fn", "exec")],
     impl="ArrayRepeat", stubs=["iws.exec"], rewrites=[_VAR_REPEAT],
     requires=[f"{AV} is Ok && {AL} is Ok ==> {AL}->Ok_0 is Int"],
     ensures=[
         ("arrayrepeat.exec.value_first_error_stops", ["C07"], f"{AV} is Err ==> r == {AV} && {S9} == {AV_ST}"),
         ("arrayrepeat.exec.length_second_once", ["C07"], f"{AV} is Ok ==> {S9} == {AL_ST}"),
         ("arrayrepeat.exec.length_error_stops", ["C07"], f"{AV} is Ok && {AL} is Err ==> r == {AL}"),
         ("arrayrepeat.exec.negative_length_error", ["C04"],
          f"{AV} is Ok && {AL} is Ok && {AL}->Ok_0->Int_0 < 0 ==> r == Err::<Variable, ExecStop>(ExecStop::Error(ExecError::NegativeLength))"),
         ("arrayrepeat.exec.repeats_value", ["C04"],
          f"{AV} is Ok && {AL} is Ok && {AL}->Ok_0->Int_0 >= 0 ==> r is Ok && r->Ok_0 is Array "
          f"&& r->Ok_0->Array_0.elems@.len() == {AL}->Ok_0->Int_0 "
          f"&& (forall|i: int| 0 <= i < {AL}->Ok_0->Int_0 ==> r->Ok_0->Array_0.elems@[i] == {AV}->Ok_0)"),
     ])
_LENC = "len.instruction is Variable && len.instruction->Variable_0 is Int"
unit(id="arrayrepeat.create_from_instructions", src="src/instruction/array_repeat.rs",
     path=[("impl", "ArrayRepeat"), ("fn", "create_from_instructions")], impl="ArrayRepeat", rewrites=[_VAR_REPEAT],
     ensures=[
         ("arrayrepeat.fold.early_error_only_for_constant_negative_length", ["C04"],
          f"r is Err ==> ({_LENC} && len.instruction->Variable_0->Int_0 < 0)"),
         ("arrayrepeat.fold.error_kind", ["C04"], "r is Err ==> r->Err_0 is NegativeLength"),
         ("arrayrepeat.fold.constants_equal_exec", ["C04"],
          f"value.instruction is Variable && {_LENC} && len.instruction->Variable_0->Int_0 >= 0 ==> "
          f"r is Ok && r->Ok_0 is Variable && r->Ok_0->Variable_0 is Array "
          f"&& r->Ok_0->Variable_0->Array_0.elems@.len() == len.instruction->Variable_0->Int_0 "
          f"&& (forall|i: int| 0 <= i < len.instruction->Variable_0->Int_0 ==> r->Ok_0->Variable_0->Array_0.elems@[i] == value.instruction->Variable_0)"),
         ("arrayrepeat.fold.non_constant_rebuilt_in_place", ["C04"],
          f"r is Ok && !(value.instruction is Variable && {_LENC}) ==> "
          f"r == {OKI}(Instruction::ArrayRepeat(Arc::new(ArrayRepeat {{ value, len }})))"),
     ])

# ---------------------------------------------------------------- more C08 leaves in V -----
unit(id="xor.exec", src="src/instruction/bin_op/bitwise.rs", path=[("mod", "bitwise"), ("fn", "exec")], mod="xor",
     duplicate=dict(column="bitwise", value="xor"),
     requires=["(lhs is Int && rhs is Int) || (lhs is Bool && rhs is Bool)"],
     ensures=[
         ("xor.exec.int_bitwise", ["C08"], "lhs is Int ==> r == Variable::Int(lhs->Int_0 ^ rhs->Int_0)"),
         ("xor.exec.bool_logical", ["C08"], "lhs is Bool ==> r == Variable::Bool(lhs->Bool_0 != rhs->Bool_0)"),
     ])
unit(id="not.exec", src="src/instruction/prefix_op.rs", path=[("mod", "not"), ("fn", "exec")], mod="not",
     requires=["variable is Int || variable is Bool"],
     ensures=[
         ("not.exec.int_bitwise_complement", ["C08"], "variable is Int ==> r == Variable::Int(!variable->Int_0)"),
         ("not.exec.bool_negation", ["C08"], "variable is Bool ==> r == Variable::Bool(!variable->Bool_0)"),
     ])
for _m, _op in (("greater", ">"), ("greater_equal", ">="), ("lower", "<"), ("lower_equal", "<=")):
    unit(id=f"{_m}.exec", src="src/instruction/bin_op/math.rs", path=[("mod", "ord"), ("fn", "exec")], mod=_m,
         duplicate=dict(column="ord", value=_m),
         requires=["lhs is Int && rhs is Int"],
         ensures=[
             (f"{_m}.exec.int_signed_comparison", ["C08"], f"r == Variable::Bool(lhs->Int_0 {_op} rhs->Int_0)"),
         ])

# ---------------------------------------------------------------- destructuring ----------
DT = f"eval_res(self.instruction.instruction, {S0})"
DT_ST = f"eval_st(self.instruction.instruction, {S0})"
# unary_minus::exec is K-only: Verus rejects unary minus on f64 (the Float arm of the same function)

# ---------------------------------------------------------------- at: fold path ------------
unit(id="at.range", src="src/instruction/at.rs", path=[("fn", "range")], mod="at", extra="use std::ops::Range;\n",
     requires=["value <= isize::MAX as usize"],
     ensures=[("at.range.is_minus_n_to_n", ["C09", "C04"], "r.start == -(value as int) && r.end == value as int")])
unit(id="at.exec.pure", src="src/instruction/at.rs", path=[("fn", "exec")], mod="at", stub_only=True,
     ensures=[("at.exec.pure", [], "r == op_at(variable, index)")])
unit(id="at.create_from_instructions", src="src/instruction/at.rs", path=[("fn", "create_from_instructions")], mod="at",
     stubs=["at.exec.pure", "at.range"], fragments=["opspecs", "semantics"], broadcast=["sem_axioms::sem"],
     extra="use std::ops::Range;\n",
     requires=["instruction is Array ==> instruction->Array_0.instructions@.len() <= isize::MAX as usize"],
     ensures=[
         ("at.fold.unobservable", ["C09", "C04"],
          "r is Ok ==> (" + sem_binop("r->Ok_0", "unfolded(instruction, index, BinOperator::At)") + ")"),
         ("at.fold.constants_equal_exec", ["C09", "C04"],
          f"instruction is Variable && index is Variable ==> (match op_at(instruction->Variable_0, index->Variable_0) {{ "
          f"Ok(v) => r == {OKI}(Instruction::Variable(v)), Err(e) => r == Err::<Instruction, ExecError>(e) }})"),
         ("at.fold.early_error_only_for_constant_index_outside_array_literal", ["C09", "C04"],
          "!(instruction is Variable && index is Variable) ==> (r is Err ==> (instruction is Array && index is Variable "
          "&& index->Variable_0 is Int && !(-(instruction->Array_0.instructions@.len() as int) <= index->Variable_0->Int_0 "
          "< instruction->Array_0.instructions@.len() as int))) && (r is Err ==> r->Err_0 is IndexOutOfBounds)"),
         ("at.fold.non_constant_rebuilt_in_place", ["C09", "C04", "C07"],
          "!(instruction is Variable && index is Variable) && r is Ok ==> "
          f"r == {OKI}(Instruction::BinOperation(Arc::new(BinOperation {{ lhs: instruction, rhs: index, op: BinOperator::At }})))"),
     ])

# ---------------------------------------------------------------- array / tuple literals ----
for _id, _src, _impl, _field, _ctor in (("array.exec", "src/instruction/array.rs", "ArrayIns", "instructions", "Array"),
                                        ("tuple.exec", "src/instruction/tuple.rs", "TupleIns", "elements", "Tuple")):
    _SEQ = f"seq_res(self.{_field}@, {S0}, 0, Seq::empty())"
    unit(id=_id, src=_src, path=[("impl", f"Exec for {_ctor}"), ("fn", "exec")], impl=_impl,
         ensures=[
             (f"{_id}.elements_left_to_right_each_once", ["C07"],
              f"{S9} == seq_st(self.{_field}@, {S0}, 0) && (match {_SEQ} {{ "
              f"Ok(vs) => r is Ok && r->Ok_0 is {_ctor} && r->Ok_0->{_ctor}_0.elems@ == vs, "
              f"Err(e) => r == Err::<Variable, ExecStop>(e) }})"),
         ])

# ---------------------------------------------------------------- slicing bound conversion ---
unit(id="slicing.to_bound", src="src/instruction/slicing.rs", path=[("impl", "Slicing"), ("fn", "to_bound")], impl="Slicing",
     ensures=[
         ("slicing.to_bound.never_isize_min", ["C09"], "r > isize::MIN"),
         ("slicing.to_bound.identity_above_min", ["C09"], "index > i64::MIN ==> r as int == index as int"),
     ])

# ---------------------------------------------------------------- recreate of statements ----
RB = f"rec_res(self.0.instruction, {RS0})"
unit(id="loop.recreate", src="src/instruction/loop.rs", path=[("impl", "Recreate for Loop"), ("fn", "recreate")], impl="Loop",
     stubs=["iws.recreate"],
     ensures=[
         ("loop.recreate.stays_a_loop_around_the_recreated_body", ["C04", "C12"],
          f"(match {RB} {{ Err(e) => r == Err::<Instruction, ExecError>(e), "
          f"Ok(b) => r is Ok && r->Ok_0 is Loop && r->Ok_0->Loop_0.0.instruction == b }}) "
          f"&& {RS9} == rec_st(self.0.instruction, {RS0})"),
     ])
_BR = f"rseq_res(self.instructions@, lv_layer({RS0}), 0, Seq::empty())"
unit(id="block.recreate", src="src/instruction/block.rs", path=[("impl", "Recreate for Block"), ("fn", "recreate")], impl="Block",
     ensures=[
         ("block.recreate.bindings_do_not_leak_out_of_the_block", ["C04"], f"{RS9} == {RS0}"),
         ("block.recreate.statements_recreated_in_a_new_layer", ["C04", "C12"],
          f"(match {_BR} {{ Err(e) => r == Err::<Instruction, ExecError>(e), "
          f"Ok(is) => r is Ok && r->Ok_0 is Block && r->Ok_0->Block_0.instructions@.len() == is.len() "
          f"&& (forall|i: int| 0 <= i < is.len() ==> r->Ok_0->Block_0.instructions@[i].instruction == is[i]) }})"),
     ])
RI = f"rec_res(self.instruction.instruction, {RS0})"
RI_ST = f"rec_st(self.instruction.instruction, {RS0})"
unit(id="set.recreate", src="src/instruction/set.rs", path=[("impl", "Recreate for Set"), ("fn", "recreate")], impl="Set",
     stubs=["iws.recreate"],
     ensures=[
         ("set.recreate.binds_the_recreated_value", ["C04"],
          f"(match {RI} {{ Err(e) => r == Err::<Instruction, ExecError>(e) && {RS9} == {RI_ST}, "
          f"Ok(v) => r is Ok && r->Ok_0 is Set && r->Ok_0->Set_0.ident == self.ident && r->Ok_0->Set_0.instruction.instruction == v "
          f"&& {RS9} == lv_insert({RI_ST}, self.ident, lv_of_instruction(v)) }})"),
     ])
RX = f"rec_res(self.expression.instruction, {RS0})"
RX_ST = f"rec_st(self.expression.instruction, {RS0})"
_IFM_ST = f"lv_insert(lv_layer({RX_ST}), self.ident, LocalVariable::Other(self.var_type))"
unit(id="setifelse.recreate", src=CF + "set_if_else.rs", path=[("impl", "Recreate for SetIfElse"), ("fn", "recreate")],
     impl="SetIfElse", stubs=["iws.recreate"],
     ensures=[
         ("setifelse.recreate.keeps_both_branches_and_scopes_the_binding", ["C04", "C12"],
          f"(match {RX} {{ Err(e) => r == Err::<Instruction, ExecError>(e), Ok(x) => "
          f"(match rec_res(self.if_match.instruction, {_IFM_ST}) {{ Err(e) => r == Err::<Instruction, ExecError>(e), Ok(m) => "
          f"(match rec_res(self.else_instruction.instruction, {RX_ST}) {{ Err(e) => r == Err::<Instruction, ExecError>(e), Ok(el) => "
          f"r is Ok && r->Ok_0 is SetIfElse && r->Ok_0->SetIfElse_0.ident == self.ident && r->Ok_0->SetIfElse_0.var_type == self.var_type "
          f"&& r->Ok_0->SetIfElse_0.expression.instruction == x && r->Ok_0->SetIfElse_0.if_match.instruction == m "
          f"&& r->Ok_0->SetIfElse_0.else_instruction.instruction == el "
          f"&& {RS9} == rec_st(self.else_instruction.instruction, {RX_ST}) }}) }}) }})"),
     ])

# ---------------------------------------------------------------- unary fold functions ----
PREFIX = "src/instruction/prefix_op.rs"
for _m, _op in (("not", "Not"), ("unary_minus", "UnaryMinus")):
    _rw = [("var!(-num)", "Variable::from(-num)")] if _m == "unary_minus" else []
    unit(id=f"{_m}.exec.pure", src=PREFIX, path=[("mod", _m), ("fn", "exec")], mod=_m, stub_only=True, rewrites=_rw,
         ensures=[(f"{_m}.exec.pure", [], f"r == op_{_m}(variable)")])
    unit(id=f"{_m}.create_from_instruction", src=PREFIX, path=[("mod", _m), ("fn", "create_from_instruction")], mod=_m,
         stubs=[f"{_m}.exec.pure"], fragments=["opspecs", "semantics"], broadcast=["sem_axioms::sem"],
         ensures=[
             (f"{_m}.fold1.unobservable", ["C04", "C08"],
              sem_unop("r", f"UnaryOperation {{ instruction, op: UnaryOperator::{_op} }}")),
             (f"{_m}.fold1.constant_equals_exec", ["C04", "C08"],
              f"instruction is Variable ==> r == Instruction::Variable(op_{_m}(instruction->Variable_0))"),
             (f"{_m}.fold1.non_constant_rebuilt_same_operator", ["C04", "C08"],
              f"!(instruction is Variable) ==> r == Instruction::UnaryOperation(Arc::new(UnaryOperation {{ instruction, op: UnaryOperator::{_op} }}))"),
         ])

# ---------------------------------------------------------------- == / != operators (C19) ---
for _m, _neg in (("equal", ""), ("not_equal", "!")):
    unit(id=f"{_m}.exec", src=BINOP, path=[("mod", _m), ("fn", "exec")], mod=_m,
         ensures=[
             (f"{_m}.exec.is_{'the_negation_of_' if _neg else ''}value_equality", ["C19"],
              f"r == Variable::Bool({_neg}var_eq(lhs, rhs))"),
         ])

# ---------------------------------------------------------------- Instruction::exec dispatch ----
# `impl Exec for Instruction` is the match_any! dispatcher every composite instruction goes through.  It is proved
# against one uninterpreted function pair per kind (verus/kinds.rs): the dispatch axioms of verus/semantics.rs
# ("executing Instruction::BinOperation(b) is BinOperation::exec(b)") are these clauses, no longer assumptions.
_KINDS = [("AnonymousFunction", "anonymousfunction"), ("Array", "array"), ("ArrayRepeat", "arrayrepeat"), ("Block", "block"),
          ("DestructTuple", "destructtuple"), ("Tuple", "tuple"), ("BinOperation", "binoperation"), ("FieldAccess", "fieldaccess"),
          ("FunctionDeclaration", "functiondeclaration"), ("IfElse", "ifelse"), ("Loop", "loop"), ("Match", "match"),
          ("Mut", "mut"), ("Reduce", "reduce"), ("Set", "set"), ("SetIfElse", "setifelse"), ("Slicing", "slicing"),
          ("Struct", "struct"), ("TypeFilter", "typefilter"), ("UnaryOperation", "unaryoperation"), ("TupleAccess", "tupleaccess")]
_KIND_PROPS = {"BinOperation": ["C04", "C07", "C08"], "IfElse": ["C04", "C07", "C12"], "UnaryOperation": ["C04", "C07", "C08"],
               "Loop": ["C12"], "Match": ["C07", "C12"], "Block": ["C12"], "SetIfElse": ["C07", "C12"], "Set": ["C07"],
               "Array": ["C07"], "Tuple": ["C07"], "ArrayRepeat": ["C07", "C04"], "Slicing": ["C09"]}
_BOXED = {"Block", "Tuple", "AnonymousFunction"}   # held by value in the enum, the others behind an Arc
_iens = [
    ("instruction.exec.constant_yields_itself", ["C04", "C07"],
     f"self is Variable ==> r == {OKV}(self->Variable_0) && {S9} == {S0}"),
    ("instruction.exec.break_signals_break", ["C12"], f"self is Break ==> r == Err::<Variable, ExecStop>(ExecStop::Break) && {S9} == {S0}"),
    ("instruction.exec.continue_signals_continue", ["C12"],
     f"self is Continue ==> r == Err::<Variable, ExecStop>(ExecStop::Continue) && {S9} == {S0}"),
    ("instruction.exec.name_yields_bound_value", ["C07"],
     f"self is LocalVariable && st_lookup({S0}, self->LocalVariable_0) is Some ==> "
     f"r == {OKV}(st_lookup({S0}, self->LocalVariable_0)->Some_0) && {S9} == {S0}"),
]
for _v, _l in _KINDS:
    _d = f"self->{_v}_0" if _v in _BOXED else f"*self->{_v}_0"
    _iens.append((f"instruction.exec.dispatch_{_l}", _KIND_PROPS.get(_v, ["C07"]),
                  f"self is {_v} ==> r == kind_{_l}_res({_d}, {S0}) && {S9} == kind_{_l}_st({_d}, {S0})"))
unit(id="instruction.exec", src=INS, path=[("impl", "Exec for Instruction"), ("fn", "exec")], impl="Instruction",
     fragments=["kinds"], omit=["instruction_exec_stub"],
     # annotation: the panic closure of the LocalVariable arm is given `requires false`, so that calling ok_or_else obliges the
     # proof to show the name IS bound (this unit's precondition; that accepted programs only read bound names is C06's business)
     injections=[(".ok_or_else(|| panic!(\"Tried to get variable {ident} that doest exist\")),",
                  ".ok_or_else(|| -> (e: ExecStop) requires false { panic!(\"Tried to get variable {ident} that doest exist\") }),")],
     requires=[f"self is LocalVariable ==> st_lookup({S0}, self->LocalVariable_0) is Some"],
     ensures=_iens)

_rens2 = [
    ("instruction.recreate.constant_stays_itself", ["C04"],
     f"self is Variable ==> r == {OKI}(Instruction::Variable(self->Variable_0)) && {RS9} == {RS0}"),
    ("instruction.recreate.break_continue_unchanged", ["C04", "C12"],
     f"(self is Break || self is Continue) ==> r == {OKI}(*self) && {RS9} == {RS0}"),
]
for _v, _l in _KINDS:
    _d = f"self->{_v}_0" if _v in _BOXED else f"*self->{_v}_0"
    _rens2.append((f"instruction.recreate.dispatch_{_l}", ["C04"],
                   f"self is {_v} ==> r == kind_{_l}_rec({_d}, {RS0}) && {RS9} == kind_{_l}_rec_st({_d}, {RS0})"))
unit(id="instruction.recreate", src=INS, path=[("impl", "Recreate for Instruction"), ("fn", "recreate")], impl="Instruction",
     fragments=["kinds"], omit=["instruction_recreate_stub"], no_safe=True, ensures=_rens2)

# ---------------------------------------------------------------- equality by content (C19), unbounded ----
_PTR_EQ = """// std::sync::Arc::ptr_eq on the model types of Arc<Function> / Arc<Mut>: pointer identity is the ghost id
pub struct Arc;
impl Arc {
    #[verifier::external_body]
    pub fn ptr_eq<T: HasId>(a: &T, b: &T) -> (r: bool) ensures r == (a.ident() == b.ident()) { unimplemented!() }
}
"""
unit(id="array.eq", src="src/variable/array.rs", path=[("impl", "PartialEq for Array"), ("fn", "eq")], impl="ArrayVal",
     mod="array_eq", fragments=["equality"],
     unit_types=[dict(name="Array (value)", src="src/variable/array.rs", path=[("struct", "Array")],
                      rewrites=[("pub struct Array", "pub struct ArrayVal"), ("Arc<[Variable]>", "Tup"), ("pub(crate) ", "pub ")])],
     ensures=[
         ("array.eq.elementwise_independent_of_stored_element_type", ["C19"],
          "r == seq_struct_eq(self.elements.elems@, other.elements.elems@)"),
     ])
unit(id="variable.eq", src="src/variable.rs", path=[("impl", "PartialEq for Variable"), ("fn", "eq")], impl="Variable",
     mod="variable_eq", fragments=["equality"], mod_extra=_PTR_EQ,
     ensures=[
         # the float-float arm compares `&f64 == &f64`, about which Verus knows nothing (vstd gives f64 no eq_spec): that one
         # arm is the complete K harness c19_float_eq (IEEE equality, all 2^128 pairs); floats INSIDE arrays, tuples and
         # structs are covered here through the induction hypothesis (struct_eq on the elements)
         ("variable.eq.is_equality_by_content", ["C19"], "!(self is Float && other is Float) ==> r == struct_eq(*self, *other)"),
         ("variable.eq.different_kinds_unequal", ["C19"],
          "(self is Int && !(other is Int)) || (self is Array && !(other is Array)) || (self is Tuple && !(other is Tuple)) "
          "|| (self is Void && !(other is Void)) || (self is String && !(other is String)) ==> !r"),
         ("variable.eq.cells_and_functions_by_identity", ["C19"],
          "(self is Mut && other is Mut ==> r == (self->Mut_0.id@ == other->Mut_0.id@)) "
          "&& (self is Function && other is Function ==> r == (self->Function_0.id@ == other->Function_0.id@))"),
     ])

import vunits_c13  # noqa: E402,F401  (C13 units; registers itself through unit())
import vunits_more  # noqa: E402,F401  (Slicing::exec, ...)
import vunits_fn  # noqa: E402,F401  (function creation: closures are re-folded when created)
import vunits_env  # noqa: E402,F401  (the environment data structures themselves: Interpreter, LocalVariables)
