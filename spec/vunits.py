"""Functions under contract for back end V (Verus).

Each unit names one function of /repo by file + item path; its body is copied verbatim
at every run.  `requires` come from the call sites (type checker guarantees / tag rows
of can_be_used), `ensures` clauses come from the property statements; each clause is a
named obligation `Cxx.<fn>.<clause>` tagged with the properties it serves.
"""
UNITS = []
MATH = "src/instruction/bin_op/math/"


def unit(**kw):
    kw.setdefault("safe_props", sorted({p for _o, ps, _c in kw.get("ensures", []) for p in ps}))
    kw["safe_id"] = kw["id"] + ".safe"
    UNITS.append(kw)
    return kw


INT2 = "lhs is Int && rhs is Int"

# ---------------------------------------------------------------- C08 scalar leaves ---
unit(id="add.exec", src=MATH + "add.rs", path=[("fn", "exec")], mod="add",
     requires=[INT2],
     ensures=[
         ("add.exec.int_wrap", ["C08"], "r == Variable::Int(wrap64(lhs->Int_0 + rhs->Int_0) as i64)"),
     ])
unit(id="subtract.exec", src=MATH + "subtract.rs", path=[("fn", "exec")], mod="subtract",
     requires=[INT2],
     ensures=[
         ("subtract.exec.int_wrap", ["C08"], "r == Variable::Int(wrap64(lhs->Int_0 - rhs->Int_0) as i64)"),
     ])
unit(id="multiply.exec", src=MATH + "multiply.rs", path=[("fn", "exec")], mod="multiply",
     requires=[INT2],
     ensures=[
         ("multiply.exec.int_wrap", ["C08"], "r == Variable::Int(wrap64(lhs->Int_0 * rhs->Int_0) as i64)"),
     ])
unit(id="divide.exec", src=MATH + "divide.rs", path=[("fn", "exec")], mod="divide",
     requires=["dividend is Int && divisor is Int"],
     ensures=[
         ("divide.exec.zero_iff_error", ["C08"], "divisor->Int_0 == 0 <==> r is Err"),
         ("divide.exec.error_kind", ["C08"], "r is Err ==> r->Err_0 is ZeroDivision"),
         ("divide.exec.trunc_value", ["C08"],
          "divisor->Int_0 != 0 ==> r == Ok::<Variable, ExecError>(Variable::Int(wrap64(trunc_div(dividend->Int_0 as int, divisor->Int_0 as int)) as i64))"),
         ("divide.exec.min_by_minus_one", ["C08"],
          "dividend->Int_0 == i64::MIN && divisor->Int_0 == -1 ==> r == Ok::<Variable, ExecError>(Variable::Int(i64::MIN))"),
     ])
unit(id="modulo.exec", src=MATH + "modulo.rs", path=[("fn", "exec")], mod="modulo",
     requires=["dividend is Int && divisor is Int"],
     ensures=[
         ("modulo.exec.zero_iff_error", ["C08"], "divisor->Int_0 == 0 <==> r is Err"),
         ("modulo.exec.error_kind", ["C08"], "r is Err ==> r->Err_0 is ZeroModulo"),
         ("modulo.exec.rem_value", ["C08"],
          "divisor->Int_0 != 0 ==> r == Ok::<Variable, ExecError>(Variable::Int(trunc_rem(dividend->Int_0 as int, divisor->Int_0 as int) as i64))"),
         ("modulo.exec.min_by_minus_one", ["C08"],
          "dividend->Int_0 == i64::MIN && divisor->Int_0 == -1 ==> r == Ok::<Variable, ExecError>(Variable::Int(0))"),
     ])
unit(id="pow.wrapping_pow", src=MATH + "pow.rs", path=[("fn", "wrapping_pow")], mod="pow", fragments=["powlemmas"],
     injections=[
         ("let mut result: i64 = 1;",
          "let ghost b0 = base as int;\n    let ghost e0 = exp as nat;\n    let mut result: i64 = 1;\n"
          "    proof { vstd::arithmetic::mul::lemma_mul_basics(pow(b0, e0)); }"),
         ("while exp > 0 {",
          "while exp > 0\n        invariant (result as int * pow(base as int, exp as nat)) % m64() == pow(b0, e0) % m64(),\n"
          "        decreases exp,\n    {\n        let ghost (r_old, b_old, e_old) = (result as int, base as int, exp as nat);"),
         ("exp /= 2;",
          "exp /= 2;\n        proof {\n            lemma_wrap_mod(b_old * b_old);\n"
          "            if e_old % 2 == 1 { lemma_wrap_mod(r_old * b_old); }\n"
          "            lemma_pow_step(r_old, b_old, e_old, result as int, base as int);\n        }"),
         ("    }\n    result\n",
          "    }\n    proof {\n        vstd::arithmetic::power::lemma_pow0(base as int);\n"
          "        vstd::arithmetic::mul::lemma_mul_basics(result as int);\n"
          "        lemma_wrap_unique(result as int, pow(b0, e0));\n    }\n    result\n"),
     ],
     ensures=[
         ("pow.wrapping_pow.modular_power", ["C08"], "r as int == wrap64(pow(base as int, exp as nat))"),
     ])
unit(id="pow.exec", src=MATH + "pow.rs", path=[("fn", "exec")], mod="pow", stubs=["pow.wrapping_pow"],
     requires=["base is Int && exp is Int"],
     ensures=[
         ("pow.exec.negative_iff_error", ["C08"], "exp->Int_0 < 0 <==> r is Err"),
         ("pow.exec.error_kind", ["C08"], "r is Err ==> r->Err_0 is NegativeExponent"),
         ("pow.exec.value", ["C08"],
          "exp->Int_0 >= 0 ==> r == Ok::<Variable, ExecError>(Variable::Int(wrap64(pow(base->Int_0 as int, exp->Int_0 as nat)) as i64))"),
     ])

# ---------------------------------------------------------------- abstract-machine units ---
INS = "src/instruction.rs"
CF = "src/instruction/control_flow/"
S0 = "old(interpreter).st@"
S9 = "final(interpreter).st@"

unit(id="iws.exec", src=INS, path=[("impl", "Exec for InstructionWithStr"), ("fn", "exec")],
     impl="InstructionWithStr",
     ensures=[
         ("iws.exec.delegates", ["C07", "C12"],
          f"r == eval_res(self.instruction, {S0}) && {S9} == eval_st(self.instruction, {S0})"),
     ])

COND = f"eval_res(self.condition.instruction, {S0})"
COND_ST = f"eval_st(self.condition.instruction, {S0})"
unit(id="ifelse.exec", src=CF + "if_else.rs", path=[("impl", "Exec for IfElse"), ("fn", "exec")],
     impl="IfElse", stubs=["iws.exec"],
     requires=[f"{COND} is Ok ==> {COND}->Ok_0 is Bool"],
     ensures=[
         ("ifelse.exec.condition_error_stops", ["C07", "C12"],
          f"{COND} is Err ==> r == {COND} && {S9} == {COND_ST}"),
         ("ifelse.exec.true_runs_first_branch_only", ["C07", "C12"],
          f"{COND} == Ok::<Variable, ExecStop>(Variable::Bool(true)) ==> "
          f"r == eval_res(self.if_true.instruction, {COND_ST}) && {S9} == eval_st(self.if_true.instruction, {COND_ST})"),
         ("ifelse.exec.false_runs_second_branch_only", ["C07", "C12"],
          f"{COND} == Ok::<Variable, ExecStop>(Variable::Bool(false)) ==> "
          f"r == eval_res(self.if_false.instruction, {COND_ST}) && {S9} == eval_st(self.if_false.instruction, {COND_ST})"),
     ])

LOGIC = "src/instruction/bin_op/logic.rs"
for _m, _dec, _short in (("and", "false", "false"), ("or", "true", "true")):
    unit(id=f"{_m}.exec", src=LOGIC, path=[("mod", _m), ("fn", "exec")], mod=_m,
         requires=["lhs is Bool"],
         ensures=[
             (f"{_m}.exec.short_circuit", ["C07"],
              f"lhs == Variable::Bool({_dec}) ==> r == Ok::<Variable, ExecStop>(Variable::Bool({_short})) && {S9} == {S0}"),
             (f"{_m}.exec.rhs_once_when_undecided", ["C07"],
              f"lhs == Variable::Bool(!{_dec}) ==> r == eval_res(*rhs, {S0}) && {S9} == eval_st(*rhs, {S0})"),
         ])

# ---------------------------------------------------------------- BinOperation::exec ------
BINOP = "src/instruction/bin_op.rs"
L = f"eval_res(self.lhs, {S0})"
S1 = f"eval_st(self.lhs, {S0})"
R = f"eval_res(self.rhs, {S1})"
S2 = f"eval_st(self.rhs, {S1})"
OKV = "Ok::<Variable, ExecStop>"
_strict = "!(self.op is And) && !(self.op is Or)"
_both = f"{_strict} && {L} is Ok && {R} is Ok"
_ens = [
    ("binop.exec.lhs_first_error_stops", ["C07"], f"{L} is Err ==> r == {L} && {S9} == {S1}"),
    ("binop.exec.and_short_circuit", ["C07"],
     f"self.op is And && {L} == {OKV}(Variable::Bool(false)) ==> r == {OKV}(Variable::Bool(false)) && {S9} == {S1}"),
    ("binop.exec.and_rhs_once", ["C07"],
     f"self.op is And && {L} == {OKV}(Variable::Bool(true)) ==> r == {R} && {S9} == {S2}"),
    ("binop.exec.or_short_circuit", ["C07"],
     f"self.op is Or && {L} == {OKV}(Variable::Bool(true)) ==> r == {OKV}(Variable::Bool(true)) && {S9} == {S1}"),
    ("binop.exec.or_rhs_once", ["C07"],
     f"self.op is Or && {L} == {OKV}(Variable::Bool(false)) ==> r == {R} && {S9} == {S2}"),
    ("binop.exec.rhs_second_once", ["C07"], f"{_strict} && {L} is Ok ==> {S9} == {S2}"),
    ("binop.exec.rhs_error_stops", ["C07"], f"{_strict} && {L} is Ok && {R} is Err ==> r == {R}"),
]
_PURE = [("Add", "add"), ("Subtract", "subtract"), ("Multiply", "multiply"), ("Equal", "equal"),
         ("NotEqual", "not_equal"), ("Greater", "greater"), ("GreaterOrEqual", "greater_equal"),
         ("Lower", "lower"), ("LowerOrEqual", "lower_equal"), ("BitwiseAnd", "bitwise_and"),
         ("BitwiseOr", "bitwise_or"), ("Xor", "xor")]
_FALL = [("Divide", "divide"), ("Modulo", "modulo"), ("Pow", "pow"), ("LShift", "lshift"), ("RShift", "rshift"),
         ("Filter", "filter"), ("Map", "map"), ("At", "at"), ("FunctionCall", "call"), ("Partition", "partition")]
_C08OPS = {"Add", "Subtract", "Multiply", "Greater", "GreaterOrEqual", "Lower", "LowerOrEqual", "BitwiseAnd",
           "BitwiseOr", "Xor", "Divide", "Modulo", "Pow", "LShift", "RShift"}


def _props(v):
    ps = []
    if v in _C08OPS:
        ps.append("C08")
    if v in ("Equal", "NotEqual"):
        ps.append("C19")
    if v == "At":
        ps.append("C09")
    return ps or ["C07"]


for _v, _m in _PURE:
    _ens.append((f"binop.exec.dispatch_{_m}", _props(_v),
                 f"self.op is {_v} && {_both} ==> r == {OKV}(op_{_m}({L}->Ok_0, {R}->Ok_0))"))
for _v, _m in _FALL:
    _ens.append((f"binop.exec.dispatch_{_m}", _props(_v),
                 f"self.op is {_v} && {_both} ==> (match op_{_m}({L}->Ok_0, {R}->Ok_0) {{ "
                 f"Ok(v) => r == {OKV}(v), Err(e) => r is Err }})"))
_ASSIGN_PURE = [("AssignAdd", "add"), ("AssignSubtract", "subtract"), ("AssignMultiply", "multiply"),
                ("AssignBitwiseAnd", "bitwise_and"), ("AssignBitwiseOr", "bitwise_or"), ("AssignXor", "xor")]
_ASSIGN_FALL = [("AssignDivide", "divide"), ("AssignModulo", "modulo"), ("AssignLShift", "lshift"),
                ("AssignRShift", "rshift"), ("AssignPow", "pow")]
for _v, _m in _ASSIGN_PURE:
    _ens.append((f"binop.exec.compound_{_m}", ["C08"],
                 f"self.op is {_v} && {_both} ==> r == {OKV}(op_{_m}(cell_content({L}->Ok_0), {R}->Ok_0))"))
for _v, _m in _ASSIGN_FALL:
    _ens.append((f"binop.exec.compound_{_m}", ["C08"],
                 f"self.op is {_v} && {_both} ==> (match op_{_m}(cell_content({L}->Ok_0), {R}->Ok_0) {{ "
                 f"Ok(v) => r == {OKV}(v), Err(e) => r is Err }})"))
unit(id="binop.exec", src=BINOP, path=[("impl", "Exec for BinOperation"), ("fn", "exec")],
     impl="BinOperation", stubs=["and.exec", "or.exec"], fragments=["opstubs"],
     rewrites=[("|_, b| b", "|_a, b| b")],
     requires=[f"(self.op is And || self.op is Or) && {L} is Ok ==> {L}->Ok_0 is Bool"],
     ensures=_ens)

# ---------------------------------------------------------------- UnaryOperation::exec ----
UNOP = "src/instruction/unary_operation.rs"
E = f"eval_res(self.instruction, {S0})"
E_ST = f"eval_st(self.instruction, {S0})"
unit(id="unop.exec", src=UNOP, path=[("impl", "Exec for UnaryOperation"), ("fn", "exec")],
     impl="UnaryOperation", fragments=["unstubs"],
     requires=[
         "!(self.op is All) && !(self.op is Any) && !(self.op is BitAnd) && !(self.op is BitOr)",
         f"self.op is FunctionCall && {E} is Ok ==> {E}->Ok_0 is Function",
     ],
     ensures=[
         ("unop.exec.operand_error_stops", ["C07"], f"{E} is Err ==> r == {E} && {S9} == {E_ST}"),
         ("unop.exec.operand_once_before_operator", ["C07"],
          f"!(self.op is FunctionCall) && !(self.op is Collect) ==> {S9} == {E_ST}"),
         ("unop.exec.dispatch_not", ["C08"], f"self.op is Not && {E} is Ok ==> r == {OKV}(op_not({E}->Ok_0))"),
         ("unop.exec.dispatch_unary_minus", ["C08"],
          f"self.op is UnaryMinus && {E} is Ok ==> r == {OKV}(op_unary_minus({E}->Ok_0))"),
         ("unop.exec.return_signals", ["C12"],
          f"self.op is Return && {E} is Ok ==> r == Err::<Variable, ExecStop>(ExecStop::Return({E}->Ok_0))"),
         ("unop.exec.dispatch_indirection", ["C07"],
          f"self.op is Indirection && {E} is Ok ==> r == {OKV}(op_indirection({E}->Ok_0))"),
         ("unop.exec.dispatch_iter", ["C07"], f"self.op is Iter && {E} is Ok ==> r == {OKV}(op_iter({E}->Ok_0))"),
         ("unop.exec.dispatch_sum", ["C07"],
          f"self.op is Sum && {E} is Ok ==> (match op_sum({E}->Ok_0) {{ Ok(v) => r == {OKV}(v), Err(e) => r is Err }})"),
         ("unop.exec.dispatch_product", ["C07"],
          f"self.op is Product && {E} is Ok ==> (match op_product({E}->Ok_0) {{ Ok(v) => r == {OKV}(v), Err(e) => r is Err }})"),
     ])

# ---------------------------------------------------------------- if-set / set / loop -----
X = f"eval_res(self.expression.instruction, {S0})"
X_ST = f"eval_st(self.expression.instruction, {S0})"
_LAYER = f"st_insert(st_layer({X_ST}), self.ident, {X}->Ok_0)"
unit(id="setifelse.exec", src=CF + "set_if_else.rs", path=[("impl", "Exec for SetIfElse"), ("fn", "exec")],
     impl="SetIfElse", stubs=["iws.exec"],
     ensures=[
         ("setifelse.exec.expression_error_stops", ["C07", "C12"], f"{X} is Err ==> r == {X} && {S9} == {X_ST}"),
         ("setifelse.exec.match_runs_body_with_binding", ["C07", "C12"],
          f"{X} is Ok && spec_matches(spec_as_type({X}->Ok_0), self.var_type) ==> "
          f"r == eval_res(self.if_match.instruction, {_LAYER}) && {S9} == {X_ST}"),
         ("setifelse.exec.no_match_runs_else_only", ["C07", "C12"],
          f"{X} is Ok && !spec_matches(spec_as_type({X}->Ok_0), self.var_type) ==> "
          f"r == eval_res(self.else_instruction.instruction, {X_ST}) && {S9} == eval_st(self.else_instruction.instruction, {X_ST})"),
     ])
V_ = f"eval_res(self.instruction.instruction, {S0})"
V_ST = f"eval_st(self.instruction.instruction, {S0})"
unit(id="set.exec", src="src/instruction/set.rs", path=[("impl", "Exec for Set"), ("fn", "exec")],
     impl="Set", stubs=["iws.exec"],
     ensures=[
         ("set.exec.expression_error_stops", ["C07"], f"{V_} is Err ==> r == {V_} && {S9} == {V_ST}"),
         ("set.exec.binds_after_evaluating_once", ["C07"],
          f"{V_} is Ok ==> r == {V_} && {S9} == st_insert({V_ST}, self.ident, {V_}->Ok_0)"),
     ])
unit(id="loop.exec", src="src/instruction/loop.rs", path=[("impl", "Exec for Loop"), ("fn", "exec")],
     impl="Loop", stubs=["iws.exec"],
     fn_attrs=["#[verifier::exec_allows_no_decreases_clause]"],
     ensures=[
         ("loop.exec.value_is_void", ["C12"], f"r is Ok ==> r == {OKV}(Variable::Void)"),
         ("loop.exec.break_continue_do_not_escape", ["C12"],
          "r is Err ==> (r->Err_0 is Return || r->Err_0 is Error)"),
     ])

# ---------------------------------------------------------------- block / function --------
_BSEQ = f"seq_res(self.instructions@, st_layer({S0}), 0, Seq::empty())"
unit(id="block.exec", src="src/instruction/block.rs", path=[("impl", "Exec for Block"), ("fn", "exec")],
     impl="Block",
     ensures=[
         ("block.exec.stop_propagates", ["C12"], f"{_BSEQ} is Err ==> r == Err::<Variable, ExecStop>({_BSEQ}->Err_0)"),
         ("block.exec.value_of_last_statement", ["C12"],
          f"{_BSEQ} is Ok && {_BSEQ}->Ok_0.len() > 0 ==> r == {OKV}({_BSEQ}->Ok_0[{_BSEQ}->Ok_0.len() - 1])"),
         ("block.exec.empty_is_void", ["C12"], f"{_BSEQ} is Ok && {_BSEQ}->Ok_0.len() == 0 ==> r == {OKV}(Variable::Void)"),
         ("block.exec.runs_in_new_layer", ["C12"], f"{S9} == {S0}"),
     ])
_FSEQ = f"seq_res(self.body->Lang_0@, {S0}, 0, Seq::empty())"
unit(id="function.exec", src="src/function.rs", path=[("impl", "Function"), ("fn", "exec")],
     impl="Function",
     rewrites=[("return (body)(interpreter)", "return NativeFn::call(body, interpreter)")],
     requires=[f"self.body is Lang && {_FSEQ} is Err ==> !({_FSEQ}->Err_0 is Break) && !({_FSEQ}->Err_0 is Continue)"],
     ensures=[
         ("function.exec.falling_off_end_is_void", ["C12"],
          f"self.body is Lang && {_FSEQ} is Ok ==> r == Ok::<Variable, ExecError>(Variable::Void)"),
         ("function.exec.return_yields_value", ["C12"],
          f"self.body is Lang && {_FSEQ} is Err && {_FSEQ}->Err_0 is Return ==> r == Ok::<Variable, ExecError>({_FSEQ}->Err_0->Return_0)"),
         ("function.exec.error_passes", ["C12"],
          f"self.body is Lang && {_FSEQ} is Err && {_FSEQ}->Err_0 is Error ==> r == Err::<Variable, ExecError>({_FSEQ}->Err_0->Error_0)"),
     ])

# ---------------------------------------------------------------- match -------------------
MARM = CF + "match_arm.rs"
unit(id="matcharm.exec", src=MARM, path=[("impl", "MatchArm"), ("fn", "exec")], impl="MatchArm",
     stubs=["iws.exec"],
     ensures=[
         ("matcharm.exec.runs_arm_body", ["C12"],
          f"r == arm_exec_res(*self, variable, {S0}) && {S9} == arm_exec_st(*self, variable, {S0})"),
     ])
unit(id="matcharm.covers", src=MARM, path=[("impl", "MatchArm"), ("fn", "covers")], impl="MatchArm",
     stubs=["iws.exec"],
     injections=[
         ("Ok(match self {", "let ghost s0 = interpreter.st@;\n        Ok(match self {"),
         ("for instruction in instructions.iter() {",
          "for instruction in it: instructions.iter()\n"
          "                    invariant\n"
          "                        s0 == old(interpreter).st@,\n"
          "                        *self is Value && self->Value_0@ == instructions@,\n"
          "                        it.seq().len() == instructions@.len(),\n"
          "                        forall|j: int| 0 <= j < it.seq().len() ==> *it.seq()[j] == instructions@[j],\n"
          "                        cand_res(instructions@, *variable, s0, 0) == cand_res(instructions@, *variable, interpreter.st@, it.index@),\n"
          "                        cand_st(instructions@, *variable, s0, 0) == cand_st(instructions@, *variable, interpreter.st@, it.index@),\n"
          "                {"),
     ],
     ensures=[
         ("matcharm.covers.candidates_top_to_bottom_until_first_equal", ["C07", "C12", "C19"],
          f"r == arm_covers_res(*self, *variable, {S0}) && {S9} == arm_covers_st(*self, *variable, {S0})"),
     ])
M = f"eval_res(self.expression.instruction, {S0})"
M_ST = f"eval_st(self.expression.instruction, {S0})"
unit(id="match.exec", src=CF + "match.rs", path=[("impl", "Exec for Match"), ("fn", "exec")], impl="Match",
     stubs=["iws.exec", "matcharm.covers", "matcharm.exec"],
     requires=[f"{M} is Ok ==> match_decided(self.arms@, {M}->Ok_0, {M_ST}, 0)"],
     injections=[
         ("let variable = self.expression.exec(interpreter)?;",
          "let variable = self.expression.exec(interpreter)?;\n        let ghost s1 = interpreter.st@;"),
         ("for arm in self.arms.iter() {",
          "for arm in it: self.arms.iter()\n"
          "            invariant\n"
          f"                {M} == {OKV}(variable) && s1 == {M_ST},\n"
          "                it.seq().len() == self.arms@.len(),\n"
          "                forall|j: int| 0 <= j < it.seq().len() ==> *it.seq()[j] == self.arms@[j],\n"
          "                match_res(self.arms@, variable, s1, 0) == match_res(self.arms@, variable, interpreter.st@, it.index@),\n"
          "                match_st(self.arms@, variable, s1, 0) == match_st(self.arms@, variable, interpreter.st@, it.index@),\n"
          "                match_decided(self.arms@, variable, s1, 0) == match_decided(self.arms@, variable, interpreter.st@, it.index@),\n"
          "                match_decided(self.arms@, variable, s1, 0),\n"
          "        {"),
     ],
     ensures=[
         ("match.exec.scrutinee_error_stops", ["C07", "C12"], f"{M} is Err ==> r == {M} && {S9} == {M_ST}"),
         ("match.exec.first_covering_arm_top_to_bottom", ["C07", "C12"],
          f"{M} is Ok ==> r == match_res(self.arms@, {M}->Ok_0, {M_ST}, 0) && {S9} == match_st(self.arms@, {M}->Ok_0, {M_ST}, 0)"),
     ])
