"""Functions under contract for back end V (Verus).

Each unit names one function of /repo by file + item path; its body is copied verbatim
at every run.  `requires` come from the call sites (type checker guarantees / tag rows
of can_be_used), `ensures` clauses come from the property statements; each clause is a
named obligation `Cxx.<fn>.<clause>` tagged with the properties it serves.
"""
UNITS = []
MATH = "src/instruction/bin_op/math/"


def unit(**kw):
    kw.setdefault("safe_props", sorted({p for _o, ps, _c in kw.get("ensures", []) for p in ps}))
    kw["safe_id"] = kw["id"] + ".safe"
    UNITS.append(kw)
    return kw


INT2 = "lhs is Int && rhs is Int"

# ---------------------------------------------------------------- C08 scalar leaves ---
unit(id="add.exec", src=MATH + "add.rs", path=[("fn", "exec")], mod="add",
     requires=[INT2],
     ensures=[
         ("add.exec.int_wrap", ["C08"], "r == Variable::Int(wrap64(lhs->Int_0 + rhs->Int_0) as i64)"),
     ])
unit(id="subtract.exec", src=MATH + "subtract.rs", path=[("fn", "exec")], mod="subtract",
     requires=[INT2],
     ensures=[
         ("subtract.exec.int_wrap", ["C08"], "r == Variable::Int(wrap64(lhs->Int_0 - rhs->Int_0) as i64)"),
     ])
unit(id="multiply.exec", src=MATH + "multiply.rs", path=[("fn", "exec")], mod="multiply",
     requires=[INT2],
     ensures=[
         ("multiply.exec.int_wrap", ["C08"], "r == Variable::Int(wrap64(lhs->Int_0 * rhs->Int_0) as i64)"),
     ])
unit(id="divide.exec", src=MATH + "divide.rs", path=[("fn", "exec")], mod="divide",
     requires=["dividend is Int && divisor is Int"],
     ensures=[
         ("divide.exec.zero_iff_error", ["C08"], "divisor->Int_0 == 0 <==> r is Err"),
         ("divide.exec.error_kind", ["C08"], "r is Err ==> r->Err_0 is ZeroDivision"),
         ("divide.exec.trunc_value", ["C08"],
          "divisor->Int_0 != 0 ==> r == Ok::<Variable, ExecError>(Variable::Int(wrap64(trunc_div(dividend->Int_0 as int, divisor->Int_0 as int)) as i64))"),
         ("divide.exec.min_by_minus_one", ["C08"],
          "dividend->Int_0 == i64::MIN && divisor->Int_0 == -1 ==> r == Ok::<Variable, ExecError>(Variable::Int(i64::MIN))"),
     ])
unit(id="modulo.exec", src=MATH + "modulo.rs", path=[("fn", "exec")], mod="modulo",
     requires=["dividend is Int && divisor is Int"],
     ensures=[
         ("modulo.exec.zero_iff_error", ["C08"], "divisor->Int_0 == 0 <==> r is Err"),
         ("modulo.exec.error_kind", ["C08"], "r is Err ==> r->Err_0 is ZeroModulo"),
         ("modulo.exec.rem_value", ["C08"],
          "divisor->Int_0 != 0 ==> r == Ok::<Variable, ExecError>(Variable::Int(trunc_rem(dividend->Int_0 as int, divisor->Int_0 as int) as i64))"),
         ("modulo.exec.min_by_minus_one", ["C08"],
          "dividend->Int_0 == i64::MIN && divisor->Int_0 == -1 ==> r == Ok::<Variable, ExecError>(Variable::Int(0))"),
     ])
unit(id="pow.exec", src=MATH + "pow.rs", path=[("fn", "exec")], mod="pow",
     requires=["base is Int && exp is Int"],
     ensures=[
         ("pow.exec.negative_iff_error", ["C08"], "exp->Int_0 < 0 <==> r is Err"),
         ("pow.exec.error_kind", ["C08"], "r is Err ==> r->Err_0 is NegativeExponent"),
         ("pow.exec.value", ["C08"],
          "exp->Int_0 >= 0 ==> r == Ok::<Variable, ExecError>(Variable::Int(wrap64(pow(base->Int_0 as int, exp->Int_0 as nat)) as i64))"),
     ])

# ---------------------------------------------------------------- abstract-machine units ---
INS = "src/instruction.rs"
CF = "src/instruction/control_flow/"
S0 = "old(interpreter).st@"
S9 = "final(interpreter).st@"

unit(id="iws.exec", src=INS, path=[("impl", "Exec for InstructionWithStr"), ("fn", "exec")],
     impl="InstructionWithStr",
     ensures=[
         ("iws.exec.delegates", ["C07", "C12"],
          f"r == eval_res(self.instruction, {S0}) && {S9} == eval_st(self.instruction, {S0})"),
     ])

COND = f"eval_res(self.condition.instruction, {S0})"
COND_ST = f"eval_st(self.condition.instruction, {S0})"
unit(id="ifelse.exec", src=CF + "if_else.rs", path=[("impl", "Exec for IfElse"), ("fn", "exec")],
     impl="IfElse", stubs=["iws.exec"],
     requires=[f"{COND} is Ok ==> {COND}->Ok_0 is Bool"],
     ensures=[
         ("ifelse.exec.condition_error_stops", ["C07", "C12"],
          f"{COND} is Err ==> r == {COND} && {S9} == {COND_ST}"),
         ("ifelse.exec.true_runs_first_branch_only", ["C07", "C12"],
          f"{COND} == Ok::<Variable, ExecStop>(Variable::Bool(true)) ==> "
          f"r == eval_res(self.if_true.instruction, {COND_ST}) && {S9} == eval_st(self.if_true.instruction, {COND_ST})"),
         ("ifelse.exec.false_runs_second_branch_only", ["C07", "C12"],
          f"{COND} == Ok::<Variable, ExecStop>(Variable::Bool(false)) ==> "
          f"r == eval_res(self.if_false.instruction, {COND_ST}) && {S9} == eval_st(self.if_false.instruction, {COND_ST})"),
     ])
