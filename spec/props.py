"""Per-property configuration: which probe families stand behind it, and the standing assumptions."""
COMMON = [
    "Verus/Z3 and Kani/CBMC/CaDiCaL are sound",
    "the extractor's rewrite table (listed per function under extraction_notes) preserves meaning: duplicate_item "
    "instantiation, match_any! expansion, attribute stripping, field visibility, `|_, b|`->`|_a, b|`, "
    "`var!(-num)`->`Variable::from(-num)`, fn-pointer call -> NativeFn::call",
    "termination is not proved (partial correctness)",
    "K runs CBMC with --max-field-sensitivity-array-size 256 (written into the scratch copy's Cargo.toml): a symex representation "
    "setting, needed for heap objects above 64 bytes; the thorough-tier composite harnesses stub std::hash::RandomState::new with "
    "fixed keys (HashMap iteration order is then fixed: no claim depends on it)",
]
MACHINE = [
    "abstract machine: every effect of executing an instruction flows through the `&mut Interpreter` argument "
    "(effects on mut cells reached through Arc are not modelled; claims are about order/selection, not cell contents)",
    "eval_res / eval_st (rec_res / rec_st) are, by definition, what Instruction::exec (Instruction::recreate) returns; the "
    "dispatcher bodies are proved (units instruction.exec / instruction.recreate) except their LocalVariable arm, whose "
    "panic closure (`name not bound`) has no precondition Verus can be given without editing the body (C06's business)",
]
PROPS = {
    "C08": dict(
        probes=["arith:+", "arith:-", "arith:*", "arith:/", "arith:%", "arith:**", "arith:<<", "arith:>>", "unary:-",
                "bitwise", "compare", "float", "eq", "expr_random", "peephole", "order"],
        explanation="scalar operator functions proved against the documented arithmetic (V: mathematical integers on the "
                    "verbatim bodies; K: bit-precise over the full i64/f64/bool domain on the real crate); dispatch of "
                    "every BinOperator/UnaryOperator and of every compound assignment to the right operator function (V); "
                    "fold path == exec path (K + V)",
        assumptions=COMMON + MACHINE + [
            "std contracts: i64::wrapping_div / wrapping_rem / wrapping_neg / wrapping_pow as stated in verus/prelude.rs",
            "f64::powf (float **) is not modelled by CBMC: assumed",
            "assign::exec / assign::try_exec bodies (RwLock write guard) are not verified: assumed to apply the passed "
            "operator to (content, rhs); exercised only by the bounded compound-path probes",
            "machine integers: bit-vectors in K, mathematical integers with explicit wrap64 in V",
            "IEEE-754 semantics of Rust f64 operators = CBMC's float model",
            "panic-message formatting (Variable::string/debug) stubbed in K",
        ]),
    "C04": dict(
        probes=["fold", "logic", "twins", "twins_random", "capture", "peephole"],
        explanation="operator-level kernel of C04: each recreate-time function agrees with the run-time function on constant "
                    "operands, raises an early error only for an operation that fails whenever evaluated, and otherwise "
                    "rebuilds the instruction with the same operator and operands; branch pruning by IfElse::recreate "
                    "selects the branch IfElse::exec selects. Whole-program claims (propagation through names, dropped "
                    "constant statements, loops) are NOT covered.",
        assumptions=COMMON + MACHINE + [
            "LocalVariables (HashMap) is abstract; Instruction::recreate of children is an uninterpreted function",
        ]),
    "C07": dict(
        probes=["order", "control_random", "peephole"],
        explanation="evaluation order of the composite instructions stated over the abstract state sequence: binary "
                    "operators (lhs, then rhs exactly once, errors stop), && / || short circuit, if / if-set / match "
                    "(only the chosen branch; arms and value candidates top to bottom), unary operators, set. Element "
                    "order of arrays/tuples/arguments/struct fields/slice bounds rests on the std contract of "
                    "iter().map().collect() (assumed) and on bounded probes.",
        assumptions=COMMON + MACHINE + [
            "Interpreter::exec (iter().map().collect::<Result<..>>()) evaluates left to right and stops at the first Err",
            "call::create_instruction builds BinOperation{lhs: function, rhs: Tuple(args)} (inspected, not proved)",
            "V-only: no counterexample; failures are replayed with generated probe programs",
        ]),
    "C09": dict(
        probes=["index", "slice", "capture", "peephole"],
        explanation="at::exec and stdlib::len proved for all lengths and all i64 indices against Seq views (V) and on real "
                    "Arc<Array>/Arc<str> values for small lengths (K, bounded); slicing: Slicing::exec proved on the verbatim "
                    "body (V) to evaluate operand, start, stop, step in that order, to put each bound (converted by to_bound) "
                    "into its slot and to return a sequence of the operand's kind made of exactly the elements the slyce crate "
                    "selects; WHAT slyce selects (Python slice semantics) is an assumed contract on the dependency, checked "
                    "bounded in K",
        assumptions=COMMON + [
            "str::chars yields the Unicode scalar values of the string (std contract; view of Str is Seq<char>)",
            "slyce::Slice::apply == Python slicing beyond the bounded harness (len<=3, |start|,|stop|<=5, |step|<=4)",
            "Slicing::exec_index (closure capturing &mut Interpreter, Option::map/transpose) is outside Verus: its contract "
            "(evaluate the bound if present, unwrap the int, apply to_bound) is read off the body and assumed; "
            "Slicing::create / recreate (pest pairs, closures) are only probed",
            "std contracts in verus/slicing.rs: Iterator::cloned / collect keep the elements in order; str::chars().collect()",
        ]),
    "C12": dict(
        probes=["control", "control_random", "capture"],
        explanation="selection and signal routing of if / if-set / match / loop / function / block proved on the verbatim "
                    "bodies against the abstract machine; desugaring of while / while-set / for and the placement checks "
                    "are the checker's business and are covered by bounded probes only",
        assumptions=COMMON + MACHINE + [
            "Match::exec: `some arm covers the scrutinee` is a precondition (the checker's is_covering_type guarantee, not proved)",
            "Function::exec: bodies raise no unguarded break/continue (precondition; the checker's in_loop discipline)",
            "Body::Native call through a fn pointer is abstracted (NativeFn::call)",
            "Type::matches and Variable::as_type are uninterpreted",
        ]),
    "C19": dict(
        probes=["eq", "eq_array", "eq_random"],
        explanation="<Variable as PartialEq>::eq and <Array as PartialEq>::eq proved on the verbatim bodies (V) to be the "
                    "structural equality the property states (struct_eq: by value / IEEE / element-wise at every depth and "
                    "length / identity; independent of Array.element_type), relative to the std contracts of slice, str, "
                    "HashMap and Arc equality; the float-float arm and all scalar arms proved bit-precisely on the real "
                    "crate (K, complete), arrays/tuples up to length 2 re-checked in K (bounded); equal/not_equal::exec and "
                    "their fold path (K + V); MatchArm::covers uses the same `==` (V)",
        assumptions=COMMON + [
            "std contracts (verus/equality.rs): <[T]>::eq is same-length element-wise T::eq; str::eq compares the scalar "
            "values; HashMap::eq is same keys with equal values; Arc<T>::eq delegates to T::eq - NOT true when T: Eq (std then "
            "short-circuits on pointer identity, observations D6/F4): no such impl exists for Array on the pinned tree, and "
            "adding one is caught only by the bounded probes",
            "identity of Arc<Function> / Arc<Mut> is modelled by a ghost id (Arc::ptr_eq compares the ids)",
            "`&f64 == &f64` has no Verus specification: the float-float arm rests on the K harness c19_float_eq alone",
            "hidden element types in the bounded array harness are drawn from {!, int, any}",
        ]),
    "C06": dict(
        probes=["scope", "capture"],
        explanation="kernel of C06 in three layers. (1) The two environment data structures themselves - Interpreter (run time) and "
                    "LocalVariables (checker / folding pass), layered hash maps - are proved on their verbatim bodies against vstd's "
                    "HashMap model: lookup returns the binding of the INNERMOST layer that has one (shadowing), insert binds in the "
                    "innermost layer only and leaves the enclosing layers alone, create_layer / function_layer / from_params / new build "
                    "exactly the layer the construct needs (a function layer is outside every loop and knows its FunctionInfo; a closure "
                    "environment made by from_params has NO enclosing layer: only the parameters and the embedding interpreter). "
                    "(2) WHO opens a layer: Block::exec / recreate, SetIfElse, MatchArm, function creation - each construct's body runs "
                    "(is folded) in a fresh layer with exactly its binder bound, and nothing it binds is visible afterwards (state after == state before). "
                    "(3) Capture by value at creation: AnonymousFunction::exec / FunctionDeclaration::exec fold the body against the parameters "
                    "and the CURRENT interpreter (a declaration with its own name registered first: recursion by name from any call path) and the function "
                    "value holds that folded body. What is NOT under contract: that lookup falls through to the enclosing layers (an "
                    "un-annotated closure inside or_else), Function::exec_with_args (zip loop), module / import / for desugaring, and the agreement of "
                    "the two environments over whole programs - bounded `scope` and `capture` probes.",
        assumptions=COMMON + MACHINE + [
            "vstd's HashMap model applies to Arc<str> keys (obeys_key_model::<Arc<str>>(): Arc<str> hashes and compares by content) and to the default hasher",
            "std: Option::or_else runs its closure only when the option is None",
            "lookup in the enclosing layers (the closure `|| self.lower_layer?.get_variable(name)`) has no callable specification: only the innermost-layer case is proved",
            "impl From<Params> for LocalVariableMap (iterator chain) is uninterpreted",
            "Function::exec_with_args (fresh interpreter holding the arguments and the function's own name), DestructTuple / Struct / module / import / `for` desugaring: not under contract",
        ]),
    "C11": dict(
        probes=["iter", "capture"],
        explanation="kernel of C11 on the three Rust-level consumers of iterators: collect::exec (`it $]`), "
                    "Reduce::exec (`it $ init f`, and through the SimpleSL-source definitions of src/stdlib/operators.rs also "
                    "$+ $* $& $|) and partition::exec (`it \\ p`) are proved on their verbatim bodies (V). A pull is a call without arguments; the iterator's "
                    "state lives in cells it captured, so NOTHING is assumed about what a pull returns: the proof holds for "
                    "every sequence of pull results. The sequence actually pulled is a ghost history injected into the loop; "
                    "the obligations (loop invariants and final assertions over that history) say: the result is exactly the "
                    "second components of the continuing pulls, in pull order (resp. the left fold of f over them, starting "
                    "from init; resp. the pair of those with p(x) == true and the others, each in pull order); the loop ends at the first pull that is not `(c, x)` with c != false, and no element after it "
                    "is used; an error of a pull or of f ends the loop. The operators defined in SimpleSL source "
                    "(@ ? ?T ~ $&& $|| for, the reducers' glue) are covered by the bounded `iter` "
                    "probes against a Python model of the sequence definitions (pull counter, call log).",
        assumptions=COMMON + MACHINE + [
            "Function::exec_with_args on a NON-empty argument list is a function of (function value, arguments) (fresh interpreter; effects "
            "through captured cells are not modelled); on an empty argument list (a pull) it is unconstrained",
            "well-typed iterator: every tuple a pull returns has two components (the checker admits only () -> (bool, T))",
            "impl From<Vec<Variable>> for Variable builds an array of exactly these elements (variable/try_from.rs: not verified)",
            "partition::exec: `var!((left, right))` is rewritten to the macro's own expansion for a tuple of identifiers (macros/src/var.rs); "
            "Typed::as_type of a function value and Type::iter_element are uninterpreted (they only determine the stored element type); "
            "core::slice::from_ref, Vec -> Arc<[T]>, [T; 2] -> Arc<[T]> are assumed std contracts",
            "the obligations about the pull history are carried by injected loop invariants / assertions (ensures clauses cannot mention a ghost local); "
            "the injection anchors are short tokens of the loop (`vec.push(`, `result = function.exec_with_args(`): an edit that removes them makes the unit undecided",
            "@ ? ?T ~ $&& $|| $+ $* $& $| `for` are SimpleSL source / desugaring evaluated by the interpreter: NOT under contract, bounded probes only",
        ]),
    "C13": dict(
        probes=["cells", "cells_random"],
        explanation="update kernel of C13 proved on the verbatim bodies (V): `mut e` yields a cell holding the value of e "
                    "(Mut::exec), `*c` yields the current content (indirection::exec), every `op=` is dispatched to "
                    "assign::exec / try_exec with the operator function of `op` (BinOperation::exec), and those two functions "
                    "read the content at the moment of the update, store the operator's result, yield the stored value, and "
                    "store nothing before the operator has succeeded (proof-only assertions bracketing the update, "
                    "against a model of RwLock). Aliasing (Arc), freshness of cells and the typing rule for cell contents "
                    "are NOT under contract: bounded probes (fixed scenarios, REPL-style error-path sequences, random "
                    "aliasing programs against a reference heap). The RwLock model of V is cross-checked bit-precisely by K on a REAL "
                    "Arc<Mut> cell: assign::exec / try_exec store what they yield, a failing update leaves the content alone, `*c` "
                    "reads the content (all i64 operands).",
        assumptions=COMMON + MACHINE + [
            "model of std::sync::RwLock<Variable>: write()/read() never poisoned, the guard dereferences to the content at lock "
            "time, and what the guard holds when it is dropped is the new content (the drop itself is not modelled: `stores` "
            "clauses are assertions about the guard at the function's exit points)",
            "`c = v` (plain assignment) passes the un-annotated closure `|_, b| b` to assign::exec: Verus gives un-annotated closures "
            "no callable spec; that assign::exec with such a closure stores and yields v is the K harness "
            "c13_assign_exec_plain_assignment_cell (real RwLock cell, all i64), that BinOperation::exec passes exactly that closure is inspected",
            "aliasing of cells is Arc sharing (Rust semantics), freshness is `Arc::new` per evaluation of Mut::exec: not "
            "expressible as a contract on one call; bounded probes",
            "the typing rule (content of a `mut T` cell stays a T: assign::can_be_used, invariance of mut in Type::matches) "
            "lives in the checker over HashSet-based types: outside both verifiers; `must be rejected` probes only",
        ]),
}

# Obligations that are SUFFICIENT for a property but not NECESSARY ("the optimizer does nothing else", "the fold function
# of this operator is the one called"), or that are proved only relative to a purity stub of the callee: when one of
# them stops being provable and no failing input can be found, the run prints a SUSPECT line and does not alarm
# (an equivalent-but-different optimisation or a refactoring that relies on the callee's behaviour would otherwise be a
# false alarm). They are still counted as obligations, and a failing probe / K counterexample still alarms.
import re as _re
ADVISORY_RE = _re.compile(
    r"(\.fold\.non_constant_rebuilt|\.recreate\.non_constant_rebuilt|rebuilt_in_place|rebuilt_same_operator"
    r"|ifelse\.recreate\.non_constant_keeps_both_branches|loop\.recreate\.|block\.recreate\.statements_recreated"
    r"|set\.recreate\.|setifelse\.recreate\.|binop\.recreate\.dispatch_|unop\.recreate\.dispatch_"
    r"|\.fold\.constants_equal_exec|with_exec\.constants_folded_by_exec|iws\.recreate\.delegates"
    r"|arrayrepeat\.fold\.constants_equal_exec|\.fold1\.constant_equals_exec"
    r"|(anonfn|fndecl)\.recreate\.body_folded|arrayrepeat\.recreate\.value_then_length)")


def is_advisory(oid):
    return bool(ADVISORY_RE.search(oid))


_ARITH = {"add": "+", "subtract": "-", "multiply": "*", "divide": "/", "modulo": "%", "pow": "**", "lshift": "<<",
          "rshift": ">>"}


def probe_family_of(prop, oid):
    """probe family used to look for a failing input when obligation `oid` fails"""
    import kunits
    for k in kunits.K:
        if k["oid"] == oid:
            return k["probe"]
    head = oid.split(".")[0]
    if prop == "C08":
        if head in _ARITH:
            return "arith:" + _ARITH[head]
        for n, op in _ARITH.items():
            if oid.endswith("_" + n):
                return "arith:" + op
        if "unary_minus" in oid or oid.startswith("not."):
            return "unary:-"
        if "bitwise" in oid or "xor" in oid:
            return "bitwise"
        if any(x in oid for x in ("greater", "lower")):
            return "compare"
        return "arith:+"
    if prop == "C04":
        return "logic" if head in ("and", "or") else "fold"
    if prop == "C07":
        return "order"
    if prop == "C09":
        return "slice" if "slic" in oid else "index"
    if prop == "C12":
        return "control"
    if prop == "C19":
        return "eq_array" if "array" in oid else "eq"
    if prop == "C13":
        return "cells"
    if prop == "C11":
        return "iter"
    if prop == "C06":
        return "scope"
    return None
