"""Harness registry for back end K (Kani/CBMC on the real crate).

kind:
  complete  loop-free (or concretely bounded loops) over the FULL input domain named in `domain`
            -> counts as a discharged obligation
  bounded   explores a stated finite part of the domain (`bound`) -> reported as a bounded
            stand-in, never counted in `discharged`
twins: V obligations this harness independently re-proves (used when V fails or is undecided)
inputs: kani::any() draws in order, for decoding concrete playback
probe:  probe family used to replay a counterexample / search a failing input on the real code
"""
K = []
MODP = "instruction::bin_op::verif_contracts::"


def k(name, props, kind, descr, tier="quick", domain="", bound="", twins=(), inputs=(), probe=None,
      nan_ok=False, functions=(), advisory=False):
    K.append(dict(name=name, harness=MODP + name, props=list(props), kind=kind, descr=descr, tier=tier,
                  domain=domain, bound=bound, twins=list(twins), inputs=list(inputs), probe=probe,
                  nan_ok=nan_ok, oid="k." + name, functions=list(functions), advisory=advisory))


I2 = ("i64", "i64")
F2 = ("f64", "f64")
ALLI = "all (a, b) in i64 x i64"
ALLF = "all (a, b) in f64 x f64 (incl. NaN, inf, subnormals)"

# ---- C08 scalar operators: exec path -------------------------------------------------------
k("c08_add_int", ["C08"], "complete", "a + b == (a + b) mod 2^64 (against 128-bit arithmetic)", domain=ALLI,
  twins=["add.exec.int_wrap", "add.exec.safe"], inputs=I2, probe="arith:+", functions=["add::exec"])
k("c08_subtract_int", ["C08"], "complete", "a - b wraps mod 2^64", domain=ALLI,
  twins=["subtract.exec.int_wrap", "subtract.exec.safe"], inputs=I2, probe="arith:-", functions=["subtract::exec"])
k("c08_multiply_int", ["C08"], "complete", "a * b wraps mod 2^64 (against the 128-bit product)", domain=ALLI,
  twins=["multiply.exec.int_wrap", "multiply.exec.safe"], inputs=I2, probe="arith:*", functions=["multiply::exec"])
k("c08_unary_minus_int", ["C08"], "complete", "-a wraps mod 2^64", domain="all a in i64", inputs=("i64",),
  probe="unary:-", functions=["unary_minus::exec"])
k("c08_divide_int_cheap", ["C08"], "complete",
  "/ : ZeroDivision iff b == 0, nothing else errs; b=1, b=-1 (incl. MIN/-1 == MIN), a=0, sign rule of truncation",
  domain=ALLI, inputs=I2, probe="arith:/", functions=["divide::exec"],
  twins=["divide.exec.zero_iff_error", "divide.exec.error_kind", "divide.exec.min_by_minus_one", "divide.exec.safe"])
k("c08_modulo_int_cheap", ["C08"], "complete",
  "% : ZeroModulo iff b == 0, nothing else errs; b=+-1 gives 0 (incl. MIN % -1), sign of the dividend",
  domain=ALLI, inputs=I2, probe="arith:%", functions=["modulo::exec"],
  twins=["modulo.exec.zero_iff_error", "modulo.exec.error_kind", "modulo.exec.min_by_minus_one", "modulo.exec.safe"])
k("c08_pow_int_small_exponents", ["C08"], "bounded", "a ** e for e in 0..=2 equals the wrapped product",
  domain="all a in i64", bound="exponent in {0,1,2}", inputs=("i64",), probe="arith:**", functions=["pow::exec"])
k("c08_pow_negative_exponent", ["C08"], "bounded", "a ** e errs NegativeExponent for e in {-1,-2,MIN}",
  domain="all a in i64", bound="exponent in {-1,-2,i64::MIN}", inputs=("i64",), probe="arith:**",
  functions=["pow::exec"])
k("c08_pow_large_exponent", ["C08"], "bounded",
  "exponents that do not fit 32 bits: b ** e == modpow(b, e) mod 2^64",
  bound="b in {2,3,-1,-2} x e in {2^32, 2^32+1, 2^33+3, i64::MAX}", inputs=("usize", "usize"), probe="arith:**",
  twins=["pow.exec.value"], functions=["pow::exec"])
k("c08_lshift", ["C08"], "complete", "<< : Ok(logical shift) iff 0 <= s <= 63 else OverflowShift", domain=ALLI,
  inputs=I2, probe="arith:<<", functions=["lshift::exec"])
k("c08_rshift", ["C08"], "complete", ">> : Ok(arithmetic shift) iff 0 <= s <= 63 else OverflowShift", domain=ALLI,
  inputs=I2, probe="arith:>>", functions=["rshift::exec"])
k("c08_bitwise_int", ["C08"], "complete", "& | ^ ! are bitwise on int", domain=ALLI, inputs=I2, probe="bitwise",
  twins=["xor.exec.int_bitwise", "not.exec.int_bitwise_complement", "xor.exec.safe", "not.exec.safe"],
  functions=["bitwise_and::exec", "bitwise_or::exec", "xor::exec", "not::exec"])
k("c08_bitwise_bool", ["C08"], "complete", "& | ^ ! are the logical operations on bool",
  domain="all (a, b) in bool x bool", inputs=("bool", "bool"), probe="bitwise",
  twins=["xor.exec.bool_logical", "not.exec.bool_negation", "xor.exec.safe", "not.exec.safe"],
  functions=["bitwise_and::exec", "bitwise_or::exec", "xor::exec", "not::exec"])
k("c08_compare_int", ["C08"], "complete", "> >= < <= are the signed comparisons", domain=ALLI, inputs=I2,
  twins=["greater.exec.int_signed_comparison", "greater_equal.exec.int_signed_comparison",
         "lower.exec.int_signed_comparison", "lower_equal.exec.int_signed_comparison",
         "greater.exec.safe", "greater_equal.exec.safe", "lower.exec.safe", "lower_equal.exec.safe"],
  probe="compare", functions=["greater::exec", "greater_equal::exec", "lower::exec", "lower_equal::exec"])
k("c08_compare_float", ["C08"], "complete", "> >= < <= are the IEEE-754 comparisons (false on NaN)", domain=ALLF,
  inputs=F2, probe="compare", functions=["greater::exec", "greater_equal::exec", "lower::exec", "lower_equal::exec"])
k("c08_add_float", ["C08"], "complete", "float + is IEEE-754 binary64 addition (bit-for-bit or both NaN)",
  domain=ALLF, inputs=F2, probe="float", nan_ok=True, functions=["add::exec"])
k("c08_subtract_float", ["C08"], "complete", "float - is IEEE-754 subtraction", domain=ALLF, inputs=F2,
  probe="float", nan_ok=True, functions=["subtract::exec"])
k("c08_multiply_float", ["C08"], "complete", "float * is IEEE-754 multiplication", domain=ALLF, inputs=F2,
  probe="float", nan_ok=True, tier="thorough", functions=["multiply::exec"])
k("c08_divide_float_total", ["C08"], "complete",
  "float / never errs and yields a float (quotient value: Rust's f64 `/` is assumed IEEE; bounded probes)",
  domain=ALLF, inputs=F2, probe="float", nan_ok=True, functions=["divide::exec"])
k("c08_unary_minus_float", ["C08"], "complete", "float unary minus flips the sign bit", domain="all a in f64",
  inputs=("f64",), probe="float", functions=["unary_minus::exec"])

# ---- C04 / C08: fold path == exec path ------------------------------------------------------
_FOLD = [("add", "Add"), ("subtract", "Subtract"), ("multiply", "Multiply"), ("bitand", "BitwiseAnd"),
         ("bitor", "BitwiseOr"), ("xor", "Xor"), ("greater", "Greater"), ("greater_equal", "GreaterOrEqual"),
         ("lower", "Lower"), ("lower_equal", "LowerOrEqual")]
_SHAPE = ("STRUCTURAL (sufficient for the property, not necessary; advisory): a non-constant operand is rebuilt as "
          "BinOperation with the same operator and the operands in place")
for _n, _op in _FOLD:
    k(f"c04_fold_{_n}", ["C04", "C08"], "complete",
      "create_from_instructions of two int constants == Variable(exec(a, b))", domain=ALLI, inputs=I2, probe="fold",
      functions=[f"{_n}::create_from_instructions", "create_from_instructions_with_exec"])
    k(f"c04_foldshape_{_n}", ["C04", "C08"], "complete", _SHAPE + f" ({_op})", domain=ALLI, inputs=I2, probe="fold",
      functions=[f"{_n}::create_from_instructions"], advisory=True)
for _n, _op in (("equal", "Equal"), ("not_equal", "NotEqual")):
    k(f"c04_fold_{_n}", ["C04", "C19"], "complete", f"folded {_op} of two int constants == exec", domain=ALLI, inputs=I2,
      probe="fold", functions=[f"{_n}::create_from_instructions"])
    k(f"c04_foldshape_{_n}", ["C04", "C19"], "complete", _SHAPE + f" ({_op})", domain=ALLI, inputs=I2, probe="fold",
      functions=[f"{_n}::create_from_instructions"], advisory=True)
for _n, _op, _e in (("divide", "Divide", "zero divisor"), ("modulo", "Modulo", "zero divisor"),
                    ("lshift", "LShift", "shift outside 0..=63"), ("rshift", "RShift", "shift outside 0..=63")):
    k(f"c04_fold_{_n}", ["C04", "C08"], "complete",
      f"folded {_op}: same Ok/Err as exec on constants; an early error only for a constant {_e} "
      f"(an operation that fails whenever evaluated) and then the documented kind"
      + ("" if _n.endswith("shift") else "; quotient VALUE equality is the V obligation, K compares b in {0,1,-1}"),
      domain=ALLI, inputs=I2, probe="fold", functions=[f"{_n}::create_from_instructions"])
    k(f"c04_foldshape_{_n}", ["C04", "C08"], "complete", _SHAPE + f" ({_op}); the early error is taken whenever allowed",
      domain=ALLI, inputs=I2, probe="fold", functions=[f"{_n}::create_from_instructions"], advisory=True)
k("c04_fold_float_ops", ["C04", "C08"], "complete",
  "folded float + - == exec bit-for-bit; a constant float zero divisor is NOT an early error", domain=ALLF,
  inputs=F2, probe="fold", nan_ok=True, functions=["add|subtract|multiply|divide::create_from_instructions"])
k("c04_fold_float_multiply", ["C04", "C08"], "complete", "folded float * == exec bit-for-bit", domain=ALLF,
  inputs=F2, probe="fold", nan_ok=True, tier="thorough", functions=["multiply::create_from_instructions"])
k("c04_fold_unary", ["C04", "C08"], "complete",
  "not/unary_minus::create_from_instruction on a constant == exec; non-constant operand rebuilt with the same operator",
  domain="all a in i64, all b in bool", inputs=("i64", "bool"), probe="fold",
  functions=["not::create_from_instruction", "unary_minus::create_from_instruction"])
k("c04_fold_logic", ["C04", "C07"], "complete",
  "and/or::create_from_instructions: constant deciding lhs gives the constant WITHOUT touching rhs; constant "
  "non-deciding lhs gives rhs itself; non-constant lhs rebuilt in place", domain="all l in bool",
  inputs=("bool",), probe="logic", functions=["and::create_from_instructions", "or::create_from_instructions"])

# ---- C19 equality ----------------------------------------------------------------------------
k("c19_scalar_eq", ["C19"], "complete",
  "int/bool/() compare by value; different kinds unequal; symmetric; reflexive", domain="all i64 x i64, bool x bool",
  inputs=("i64", "i64", "bool", "bool"), probe="eq", functions=["<Variable as PartialEq>::eq"])
k("c19_float_eq", ["C19", "C08"], "complete", "floats compare by IEEE equality (NaN != NaN, 0.0 == -0.0); symmetric",
  domain=ALLF, inputs=F2, probe="eq", functions=["<Variable as PartialEq>::eq"])
k("c19_equal_ops", ["C19", "C08"], "complete", "`!=` is the negation of `==` (int, float incl. NaN, mixed kinds)",
  domain="all i64 x i64, f64 x f64", inputs=("i64", "i64", "f64", "f64"), probe="eq",
  functions=["equal::exec", "not_equal::exec"])
k("c19_array_eq_ignores_element_type", ["C19"], "bounded",
  "arrays with equal content but different stored element types are equal",
  bound="lengths 0 and 1; stored types drawn from {!, int, any, float, string} (related and unrelated by the subtype relation); symbolic int elements", inputs=("i64", "i64"),
  probe="eq_array", functions=["<Array as PartialEq>::eq", "<Variable as PartialEq>::eq"])
k("c19_array_eq_elementwise_len2", ["C19"], "bounded", "array equality is length + element-wise equality",
  bound="lengths 1 and 2, symbolic int elements", inputs=("i64", "i64", "i64", "i64"), probe="eq_array",
  functions=["<Array as PartialEq>::eq"])
k("c19_tuple_eq_len2", ["C19"], "bounded", "tuple equality is element-wise", bound="length 2 (int, bool)",
  inputs=("i64", "bool", "i64", "bool"), probe="eq", functions=["<Variable as PartialEq>::eq"])
k("c19_mut_identity", ["C19"], "complete", "mut cells compare by identity, not content", domain="all a in i64",
  inputs=("i64",), probe="eq", functions=["<Variable as PartialEq>::eq"])

# ---- C09 indexing / len ---------------------------------------------------------------------
k("c09_at_exec_array_len3", ["C09"], "bounded", "s[i] on a real Arc<Array>: Ok(s[i mod n]) iff -n <= i < n",
  bound="array length 3; all i in i64", inputs=("i64",), probe="index",
  twins=["at.exec.in_range_ok", "at.exec.array_element", "at.exec.out_of_range_error"], functions=["at::exec"])
k("c09_at_exec_array_len0", ["C09"], "bounded", "indexing an empty array always errs IndexOutOfBounds",
  bound="array length 0; all i in i64", inputs=("i64",), probe="index", functions=["at::exec"])
k("c09_len_array_len3", ["C09"], "bounded", "std.len of a 3-element array is 3", bound="length 3", probe="index",
  functions=["stdlib::len"])
k("c09_at_range", ["C09", "C04"], "bounded",
  "at::create_from_instructions on constants == exec (early IndexOutOfBounds only outside -n..n)",
  bound="array length 3; all i in i64", inputs=("i64",), probe="index", functions=["at::create_from_instructions"])
k("c09_at_exec_string_multibyte", ["C09"], "bounded",
  "string indexing counts Unicode scalar values (1-, 2-, 3-byte scalars)", bound="string \"a\\u{e9}\\u{20ac}\"; all i in i64",
  inputs=("i64",), probe="index", functions=["at::exec"])
k("c09_len_string_multibyte", ["C09"], "bounded", "std.len counts Unicode scalar values",
  bound="string \"a\\u{e9}\\u{20ac}\"", probe="index", functions=["stdlib::len"])
k("c09_slyce_python_semantics_len3", ["C09"], "bounded",
  "ASSUMED DEPENDENCY CONTRACT: slyce::Slice{start,end,step}.apply selects Python's s[start:stop:step]",
  bound="len <= 3, |start|,|stop| <= 5, |step| <= 4, each optional", probe="slice",
  inputs=("usize", "opt_i64", "opt_i64", "opt_i64"), functions=["slyce::Slice::apply (dependency)"])


def k2(name, *a, **kw):
    k(name, *a, **kw)
    K[-1]["harness"] = "instruction::slicing::verif_slicing::" + name


k2("c09_slicing_bounds_full_domain_len3", ["C09"], "bounded",
   "for EVERY optional i64 start/stop/step: Slicing::to_bound + slyce never overflow/panic and select Python's "
   "s[start:stop:step] (empty for step 0)", bound="sequence length <= 3 (bounds and step: full i64 domain)",
   inputs=("usize", "opt_i64", "opt_i64", "opt_i64"), probe="slice", functions=["Slicing::to_bound", "slyce::Slice::apply"])
k2("c09_to_bound_is_identity_above_min", ["C09"], "complete",
   "Slicing::to_bound is the identity except that i64::MIN becomes -isize::MAX (never isize::MIN, which slyce would negate)",
   domain="all i in i64", inputs=("i64",), probe="slice", functions=["Slicing::to_bound"])

_MODEL = ["C04", "C07", "C08", "C09", "C12", "C19"]
k("model_enum_as_inner_accessors", _MODEL, "complete",
  "the prelude's model of the enum-as-inner accessors (into_int/into_bool/into_mut/into_tuple/into_function: Ok(payload) on the "
  "matching variant, Err(the value itself) otherwise) agrees with the generated code", domain="all a in i64, b in bool",
  inputs=("i64", "bool"), functions=["Variable::into_* (enum-as-inner)"])
k("model_from_impls", _MODEL, "complete",
  "the prelude's model of the derive_more From impls (Variable from i64/bool/f64, Instruction from BinOperation/Variable, "
  "ExecStop from ExecError) agrees with the generated code", domain="all a in i64, b in bool, f in f64",
  inputs=("i64", "bool", "f64"), functions=["From impls (derive_more)"])
k("model_std_wrapping_contracts", ["C08"], "complete",
  "decidable part of the assumed std contracts: wrapping_neg against 128-bit arithmetic; wrapping_div/rem for b in {1,-1} and "
  "their sign rules", domain=ALLI, inputs=I2, functions=["i64::wrapping_neg", "i64::wrapping_div", "i64::wrapping_rem"])

# ---- C13: the update kernel on a REAL Arc<Mut> cell (RwLock and all) -------------------------------------------
k("c13_assign_exec_add_cell", ["C13", "C08"], "complete",
  "assign::exec on a real cell: yields content + v and the cell (read through an alias) holds the yielded value",
  domain=ALLI, inputs=I2, probe="cells", functions=["assign::exec", "add::exec"],
  twins=["assign.exec.stored.stores_the_operator_result_it_yields", "assign.exec.stored.yields_operator_applied_to_content_at_update",
         "assign.exec.stored.nothing_stored_before_the_operator_returns", "assign.exec.stored.safe"])
k("c13_assign_exec_plain_assignment_cell", ["C13"], "complete",
  "`c = v` (assign::exec with the closure |_, b| b) on a real cell: stores v and yields v", domain=ALLI, inputs=I2, probe="cells",
  functions=["assign::exec"])
k("c13_assign_try_exec_divide_cell", ["C13", "C08"], "complete",
  "assign::try_exec with divide::exec on a real cell: b == 0 -> ZeroDivision and the cell keeps its content; b != 0 -> stored == yielded "
  "(quotient value pinned for b in {1, -1} and a == 0; the general quotient is divide.exec.trunc_value in V)",
  domain=ALLI, inputs=I2, probe="cells", functions=["assign::try_exec", "divide::exec"],
  twins=["assign.try_exec.stored.stores_the_operator_result_it_yields", "assign.try_exec.stored.nothing_stored_before_the_operator_returns",
         "assign.try_exec.stored.yields_operator_applied_to_content_at_update", "assign.try_exec.stored.safe"])
k("c13_assign_try_exec_shift_cell", ["C13", "C08"], "complete",
  "assign::try_exec with lshift::exec on a real cell: in range -> stores and yields content << v; out of range -> OverflowShift and "
  "the cell keeps its content", domain=ALLI, inputs=I2, probe="cells", functions=["assign::try_exec", "lshift::exec"])
k("c13_assign_try_exec_divide_small_divisors_cell", ["C13"], "bounded",
  "quotient value through a real cell", domain="all a in i64", bound="b in {1, 2, -1}", inputs=I2, probe="cells",
  functions=["assign::try_exec", "divide::exec"])
k("c13_indirection_reads_cell", ["C13"], "complete", "`*c` on a real cell yields its content", domain="all a in i64", inputs=("i64",),
  probe="cells", functions=["indirection::exec"], twins=["indirection.exec.yields_current_content", "indirection.exec.safe"])
# ---- std contract the abstract machine assumes for statement lists ------------------------------------------------
k("model_iter_map_collect_left_to_right_stops_at_first_err", ["C07", "C04", "C12"], "bounded",
  "std: iter().map(f).collect::<Result<Arc<[_]>, _>>() calls f left to right, once per element, and stops at the first Err "
  "(the contract assumed for Interpreter::exec and recreate_instructions)", bound="3 elements, every Ok/Err pattern",
  functions=["std::iter::Iterator::map + collect"])

# ---- composite instructions through the REAL Instruction::exec (thorough tier: 3-7 min of goto processing each) ----------
k("c07_binop_exec_subtract_through_dispatch", ["C07", "C08"], "complete",
  "BinOperation::exec on constant children through the real Instruction::exec and the 37-arm operator match: a - b",
  tier="thorough", domain=ALLI, inputs=I2, probe="arith:-", functions=["BinOperation::exec", "Instruction::exec", "subtract::exec"],
  twins=["binop.exec.dispatch_subtract"])
k("c07_binop_exec_and_short_circuit", ["C07"], "complete", "false && (1 / 0) is false: the right operand is not evaluated (real exec path)",
  tier="thorough", domain="one tree, no symbolic input", probe="order", functions=["BinOperation::exec", "and::exec"],
  twins=["binop.exec.and_short_circuit"])
k("c07_binop_exec_and_true_evaluates_rhs", ["C07"], "complete", "true && (1 / 0) fails with ZeroDivision: the right operand IS evaluated",
  tier="thorough", domain="one tree, no symbolic input", probe="order", functions=["BinOperation::exec", "and::exec"],
  twins=["binop.exec.and_rhs_once"])
k("c07_binop_exec_lhs_before_rhs", ["C07"], "complete", "(1 / 0) + (1 << 64) fails with ZeroDivision: the left operand is evaluated first",
  tier="thorough", domain="one tree, no symbolic input", probe="order", functions=["BinOperation::exec"],
  twins=["binop.exec.lhs_first_error_stops"])
k("c12_if_else_exec_selects_branch", ["C12", "C07"], "complete", "IfElse::exec yields the first branch iff the condition is true (real exec path)",
  tier="thorough", domain="all c in bool, x, y in i64", inputs=("bool", "i64", "i64"), probe="control",
  functions=["IfElse::exec", "Instruction::exec"], twins=["ifelse.exec.true_runs_first_branch_only", "ifelse.exec.false_runs_second_branch_only"])
k("c12_if_else_exec_untaken_branch_not_evaluated", ["C12", "C07"], "complete",
  "with two failing branches the error is the one of the selected branch: the other branch is not evaluated",
  tier="thorough", domain="all c in bool", inputs=("bool",), probe="control", functions=["IfElse::exec"])
