#!/usr/bin/env python3
"""print the markdown table of seeded changes and what reports them (from seeded/*/meta.json)"""
import json, os, re
V = os.path.dirname(os.path.dirname(os.path.abspath(__file__)))
print("| id | change (file: what) | first run | now reported by |")
print("|---|---|---|---|")
for sid in sorted(os.listdir(os.path.join(V, "seeded"))):
    m = json.load(open(os.path.join(V, "seeded", sid, "meta.json")))
    patch = open(os.path.join(V, "seeded", sid, "patch.diff")).read()
    files = sorted(set(re.findall(r"^\+\+\+ b/(\S+)", patch, re.M)))
    desc = " ".join(m.get("description", "").split())[:150]
    d = m.get("detection") or {}
    rep = ", ".join(d.get("reported_by", [])[:3]) or ("MISSED" if d else "not run")
    print(f"| {sid} | {', '.join(f.replace('src/instruction/', '') for f in files)}: {desc} | {m.get('first_run', '-')} | {rep} |")
