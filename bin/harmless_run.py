#!/usr/bin/env python3
"""harmless_run.py [ids...] — false-alarm test: run the quick checks of the properties whose files a behaviour-preserving
refactoring touches (seeded_harmless/R*/patch.diff) on a scratch copy of /repo with the patch applied; every run must
exit 0.  Prints one line per (refactoring, property)."""
import os, re, subprocess, sys, concurrent.futures as cf
V = os.path.dirname(os.path.dirname(os.path.abspath(__file__)))
PROPS_OF = [(r"bin_op/math/|bin_op/shift|bin_op/bitwise|prefix_op|bin_op/assign", ["C08", "C04"]),
            (r"bin_op\.rs|bin_op/logic|unary_operation", ["C08", "C04", "C07", "C13"]),
            (r"bin_op/assign", ["C13"]),
            (r"control_flow|loop\.rs|block\.rs|function\.rs|set\.rs", ["C12", "C07", "C04"]),
            (r"at\.rs|slicing|stdlib\.rs|array_repeat|instruction/array|instruction/tuple", ["C09", "C04", "C07"]),
            (r"variable\.rs|variable/array", ["C19"]),
            (r"reduce|partition", ["C11", "C07"]),
            (r"interpreter\.rs|local_variable|block\.rs|set_if_else|match_arm|function/", ["C06"]),
            (r"function/anonymous|function/declaration", ["C04"])]
ids = sys.argv[1:] or sorted(os.listdir(os.path.join(V, "seeded_harmless")), key=lambda x: int(x[1:]))
jobs = []
for rid in ids:
    patch = os.path.join(V, "seeded_harmless", rid, "patch.diff")
    files = " ".join(re.findall(r"^\+\+\+ b/(\S+)", open(patch).read(), re.M))
    props = []
    for pat, ps in PROPS_OF:
        if re.search(pat, files):
            props += [p for p in ps if p not in props]
    jobs += [(rid, p, patch) for p in props]
def one(j):
    rid, prop, patch = j
    p = subprocess.run([os.path.join(V, "bin", "mutest"), patch, prop, "quick"], capture_output=True, text=True)
    out = p.stdout
    summ = [l for l in out.splitlines() if re.match(r"^C\d+ (quick|thorough):", l)]
    und = len(re.findall(r"^UNDECIDED obligation=", out, re.M))
    sus = len(re.findall(r"^SUSPECT obligation=", out, re.M))
    viol = re.findall(r"^VIOLATION property=\S+ replay=\S*/([^/\s]+)\.json", out, re.M)
    return rid, prop, p.returncode, und, sus, viol, (summ[-1] if summ else out[-200:])
with cf.ThreadPoolExecutor(max_workers=int(os.environ.get("SEED_JOBS", "3"))) as ex:
    for rid, prop, rc, und, sus, viol, summ in ex.map(one, jobs):
        print(f"{rid} {prop} exit={rc} {'FALSE ALARM ' + ','.join(viol) if rc == 1 else 'ok'} undecided={und} suspect={sus} | {summ[:110]}", flush=True)
