#!/usr/bin/env python3
"""seed_run.py [ids...] — run the property's quick check against every seeded change (scratch copy of /repo with the
patch applied; /repo itself is not touched) and record in seeded/<id>/meta.json what reported it."""
import json, os, re, subprocess, sys, concurrent.futures as cf
V = os.path.dirname(os.path.dirname(os.path.abspath(__file__)))
ids = sys.argv[1:] or sorted(os.listdir(os.path.join(V, "seeded")))
def one(sid):
    d = os.path.join(V, "seeded", sid)
    meta = json.load(open(os.path.join(d, "meta.json")))
    keep = f"/tmp/seedrun-{sid}"
    env = dict(os.environ, MUTEST_KEEP=keep)
    p = subprocess.run([os.path.join(V, "bin", "mutest"), os.path.join(d, "patch.diff"), meta["property"], "quick"],
                       capture_output=True, text=True, env=env)
    out = p.stdout
    viol = re.findall(r"^VIOLATION property=\S+ replay=(\S+)(.*)$", out, re.M)
    und = re.findall(r"^UNDECIDED obligation=(\S+)", out, re.M)
    summ = [l for l in out.splitlines() if re.match(r"^C\d+ (quick|thorough):", l)]
    det = dict(exit_code=p.returncode, detected=p.returncode == 1,
               reported_by=[os.path.basename(r)[:-5] + (" (no-failing-input-found)" if "no-failing" in t else "") for r, t in viol],
               undecided_obligations=len(und), summary=summ[-1] if summ else out[-300:])
    # keep one failing program as illustration
    try:
        for r, _t in viol:
            pl = json.load(open(os.path.join(keep, "replays", meta["property"], os.path.basename(r))))
            if pl.get("failing_programs"):
                fp = pl["failing_programs"][0]
                det["example_failing_input"] = dict(program=fp["program"], vars=fp.get("vars"), problem=fp.get("problem"))
                break
    except Exception:
        pass
    subprocess.run(["rm", "-rf", keep])
    meta["detection"] = det
    json.dump(meta, open(os.path.join(d, "meta.json"), "w"), indent=1)
    return sid, det
with cf.ThreadPoolExecutor(max_workers=int(os.environ.get("SEED_JOBS", "4"))) as ex:
    for sid, det in ex.map(one, ids):
        print(sid, "DETECTED" if det["detected"] else "MISSED", det["reported_by"][:4], det["summary"][:120], flush=True)
