#!/usr/bin/env python3
"""seed_import.py <worktree> <property> <suffix>  — copy confirmed seeded changes of a sub-agent into /verif/seeded/"""
import json, os, shutil, sys
wt, prop, suf = sys.argv[1], sys.argv[2], sys.argv[3]
for i in (1, 2, 3, 4, 5):
    src = os.path.join(wt, "out", f"change_{i}")
    if not os.path.exists(os.path.join(src, "patch.diff")):
        continue
    conf = open(os.path.join(src, "confirm.txt")).read() if os.path.exists(os.path.join(src, "confirm.txt")) else ""
    ok = "52 passed 0 failed" in conf and "with change: demo: test result: FAILED" in conf and "without change: demo: test result: ok" in conf
    if not ok:
        print("NOT CONFIRMED", src)
        continue
    sid = f"{prop}-{suf}{i}"
    dst = os.path.join("/verif/seeded", sid)
    os.makedirs(dst, exist_ok=True)
    for f in ("patch.diff", "demo.rs", "demo_output.txt"):
        if os.path.exists(os.path.join(src, f)):
            shutil.copy(os.path.join(src, f), os.path.join(dst, f))
    meta_txt = open(os.path.join(src, "meta.txt")).read() if os.path.exists(os.path.join(src, "meta.txt")) else ""
    meta = dict(id=sid, property=prop, author="independent sub-agent given only the property text and a scratch worktree",
                description=meta_txt.strip(),
                confirmed_by_me=dict(
                    how="in a scratch git worktree of /repo: git apply patch.diff; cargo test --workspace --no-fail-fast --offline; "
                        "demo.rs copied to tests/zz_demo.rs and run with the change and again after git checkout",
                    result=conf.strip().splitlines()),
                detection=None)
    mp = os.path.join(dst, "meta.json")
    if os.path.exists(mp):
        old = json.load(open(mp))
        meta["detection"] = old.get("detection")
    json.dump(meta, open(mp, "w"), indent=1)
    print("imported", sid)
